package main

import (
	"fmt"

	"github.com/elastic/go-libaudit/v2/aucoalesce"
	"github.com/elastic/go-libaudit/v2/auparse"
	"github.com/metal-toolbox/audito-maldito/verif/vlib"
)

func main() {
	for _, l := range []string{
		vlib.AuUser("USER_CMD", vlib.BaseTSms+2, 5003, 25000, "500", "PAM:x", "success"),
		vlib.AuUser("USER_END", vlib.BaseTSms+2, 5003, 25000, "500", "PAM:x", "success"),
	} {
		m, err := auparse.ParseLogLine(l)
		fmt.Println(l, err)
		ev, err := aucoalesce.CoalesceMessages([]*auparse.AuditMessage{m})
		fmt.Printf("%v %+v\n", err, ev.Session)
		fmt.Println(ev.Timestamp, ev.Warnings)
	}
}
