package main

import (
	"regexp"
	"strings"
	"time"

	"github.com/metal-toolbox/audito-maldito/verif/vlib"
)

// Goroutine-dump parsing and hang classification. "Returns within a bounded
// time" is decided on state, not on a stopwatch: a worker is *stuck* when it
// is parked on a synchronisation object that only another parked goroutine
// or the (deliberately passive) harness could signal, and nothing in the
// process is runnable.

type gor struct {
	ID     string
	State  string // text inside [...], without the ", N minutes" suffix
	Frames []string
	Text   string
}

var gorHdr = regexp.MustCompile(`^goroutine (\d+) (?:gp=\S+ m=\S+(?: mp=\S+)? )?\[([^\]]+)\]:`)

func parseDump(d string) []gor {
	var out []gor
	var cur *gor
	for _, l := range strings.Split(d, "\n") {
		if m := gorHdr.FindStringSubmatch(l); m != nil {
			out = append(out, gor{ID: m[1], State: strings.SplitN(m[2], ",", 2)[0]})
			cur = &out[len(out)-1]
			cur.Text = l + "\n"
			continue
		}
		if cur == nil {
			continue
		}
		if strings.TrimSpace(l) == "" {
			cur = nil
			continue
		}
		cur.Text += l + "\n"
		if !strings.HasPrefix(l, "\t") {
			cur.Frames = append(cur.Frames, strings.TrimSpace(l))
		}
	}
	return out
}

func (g gor) has(fn string) bool {
	for _, f := range g.Frames {
		if strings.Contains(f, fn) {
			return true
		}
	}
	return false
}

func parkedState(s string) bool {
	switch s {
	case "chan send", "chan receive", "select", "semacquire", "sync.Mutex.Lock", "sync.Cond.Wait",
		"sync.WaitGroup.Wait", "IO wait", "select (no cases)", "chan send (nil chan)", "chan receive (nil chan)", "sync.RWMutex.Lock", "sync.RWMutex.RLock":
		return true
	}
	return false
}

// findG returns the goroutines whose stack contains fn.
func findG(gs []gor, fn string) []gor {
	var out []gor
	for _, g := range gs {
		if g.has(fn) {
			out = append(out, g)
		}
	}
	return out
}

// classifyDump is the generic classifier for a process stopped by SIGQUIT:
// stuck iff some goroutine running repository code is parked and no
// goroutine is running/runnable/in a syscall (ignoring the runtime's own
// signal and GC helpers).
func classifyDump(d string) (bool, string) {
	gs := parseDump(d)
	if len(gs) == 0 {
		return false, "no goroutine dump"
	}
	var parkedRepo []string
	for _, g := range gs {
		if g.has("os/signal.") || g.has("runtime.gcBgMarkWorker") || g.has("runtime.bgsweep") || g.has("runtime.bgscavenge") || g.has("runtime.runfinq") || g.has("runtime.forcegchelper") {
			continue
		}
		if !parkedState(g.State) {
			if g.State == "running" && (g.has("runtime.sigdump") || g.has("runtime/debug") || g.has("runtime.dumpgstatus") || g.has("runtime.sighandler")) {
				continue
			}
			if g.State == "syscall" && (g.has("os/signal") || g.has("runtime.notetsleepg")) {
				continue
			}
			return false, "goroutine " + g.ID + " is " + g.State
		}
		if g.has("github.com/metal-toolbox/audito-maldito/") && !g.has("/verif/cmd/mon.") {
			top := ""
			for _, f := range g.Frames {
				if strings.Contains(f, "github.com/metal-toolbox/audito-maldito/") {
					top = f
					break
				}
			}
			parkedRepo = append(parkedRepo, g.State+" in "+top)
		} else if g.has("github.com/metal-toolbox/audito-maldito/") {
			for _, f := range g.Frames {
				if strings.Contains(f, "github.com/metal-toolbox/audito-maldito/") && !strings.Contains(f, "/verif/") {
					parkedRepo = append(parkedRepo, g.State+" in "+f)
					break
				}
			}
		}
	}
	if len(parkedRepo) == 0 {
		return false, "no repository goroutine is parked"
	}
	if len(parkedRepo) > 4 {
		parkedRepo = parkedRepo[:4]
	}
	return true, strings.Join(parkedRepo, "; ")
}

// waitParked polls the process's own goroutine dump until a goroutine whose
// stack contains fn is in the given state.
func waitParked(fn, state string, timeout time.Duration) bool {
	deadline := time.Now().Add(timeout)
	for {
		for _, g := range findG(parseDump(vlib.AllStacks()), fn) {
			for _, st := range strings.Split(state, "|") {
				if g.State == st {
					return true
				}
			}
		}
		if time.Now().After(deadline) {
			return false
		}
		time.Sleep(2 * time.Millisecond)
	}
}

// classifyStacks says whether the goroutine(s) running fn are parked.
func classifyStacks(dump, fn string) (bool, string) {
	gs := findG(parseDump(dump), fn)
	if len(gs) == 0 {
		return false, "no goroutine runs " + fn
	}
	var why []string
	for _, g := range gs {
		if !parkedState(g.State) && !blockedInFifoOpen(g) {
			return false, "goroutine " + g.ID + " is " + g.State
		}
		top := ""
		if len(g.Frames) > 0 {
			top = g.Frames[0]
		}
		for _, f := range g.Frames {
			if strings.Contains(f, "audito-maldito/") && !strings.Contains(f, "/verif/") {
				top = f
				break
			}
		}
		why = append(why, g.State+" in "+top)
	}
	return true, strings.Join(why, "; ")
}

// blockedInFifoOpen: a goroutine sitting in open(2) on a FIFO. Only a process
// opening the other end can complete it, and that is the passive harness.
func blockedInFifoOpen(g gor) bool {
	if g.State != "syscall" {
		return false
	}
	if (g.has("syscall.openat") || g.has("syscall.Open")) && g.has("os.OpenFile") {
		return true
	}
	// a blocking read(2) on a pipe whose descriptor was switched to blocking
	// mode: only a writer (the passive harness) or end-of-stream completes it
	return (g.has("syscall.read") || g.has("syscall.Read")) && g.has("os.(*File).Read") && g.has("namedpipe.(*NamedPipeIngester).Ingest")
}
