package main

// Steer-mode scheduler: directed delay injection at the lock sites hooked by
// common.VerifLockSite (build tag verif). The program under test is a set of
// logical threads (goroutines running real code); exactly one of them runs at
// a time, and it hands control back to the scheduler just before every hooked
// mutex acquisition and when it finishes. The scheduler tracks which hooked
// mutexes are held and only resumes a thread whose next acquisition can
// succeed; which of the enabled threads runs next is the scheduling decision,
// recorded as a list of grants (replayable). Exhaustive exploration is
// stateless depth-first re-execution over those decisions.

import (
	"fmt"
	"sync"
	"time"

	"github.com/metal-toolbox/audito-maldito/internal/common"
	"github.com/metal-toolbox/audito-maldito/verif/vlib"
)

type sthread struct {
	id       int
	fn       func()
	wake     chan struct{}
	want     *sync.Mutex
	finished bool
	holds    int
}

type yieldMsg struct {
	id       int
	finished bool
	panicked any
}

type steer struct {
	threads []*sthread
	byGoid  sync.Map // goid -> *sthread
	held    map[*sync.Mutex]int
	yield   chan yieldMsg
	// decisions: at each point with more than one enabled thread, the index
	// (into the sorted enabled list) that was taken and how many there were.
	prefix    []int
	taken     []int
	fanout    []int
	grants    []int
	chooser   func(depth int, enabled []int) int // nil: prefix then 0
	abandoned string
	deadlock  string
	panicked  any
}

var steerMu sync.Mutex // one steered execution at a time per process (the hook is global)

// runSteered executes the thread functions under the scheduler.
func runSteered(fns []func(), prefix []int, chooser func(depth int, enabled []int) int) *steer {
	steerMu.Lock()
	defer steerMu.Unlock()
	s := &steer{held: map[*sync.Mutex]int{}, yield: make(chan yieldMsg), prefix: prefix, chooser: chooser}
	for i, fn := range fns {
		s.threads = append(s.threads, &sthread{id: i, fn: fn, wake: make(chan struct{})})
	}
	common.VerifLockHook = s.hook
	defer func() { common.VerifLockHook = nil }()
	for _, t := range s.threads {
		t := t
		go func() {
			s.byGoid.Store(vlib.Goid(), t)
			<-t.wake // start only when granted
			var p any
			func() {
				defer func() { p = recover() }()
				t.fn()
			}()
			s.yield <- yieldMsg{id: t.id, finished: true, panicked: p}
		}()
	}
	// wait until every thread goroutine has registered itself
	for {
		n := 0
		s.byGoid.Range(func(_, _ any) bool { n++; return true })
		if n == len(s.threads) {
			break
		}
		time.Sleep(10 * time.Microsecond)
	}
	// Warm-up: run every thread up to its first hooked lock site (or to its
	// end). What a thread does before it first asks for a lock is local to
	// it, so the order of these steps is not a scheduling decision.
	for _, t := range s.threads {
		t.wake <- struct{}{}
		select {
		case m := <-s.yield:
			if m.finished {
				s.threads[m.id].finished = true
				if m.panicked != nil {
					s.panicked = m.panicked
				}
			}
		case <-time.After(20 * time.Second):
			s.abandoned = fmt.Sprintf("thread %d neither yielded nor finished within 20 s during warm-up", t.id)
			return s
		}
	}
	depth := 0
	for {
		var enabled []int
		unfinished := 0
		for _, t := range s.threads {
			if t.finished {
				continue
			}
			unfinished++
			if t.want == nil {
				enabled = append(enabled, t.id)
			} else if _, isHeld := s.held[t.want]; !isHeld {
				enabled = append(enabled, t.id)
			}
		}
		if unfinished == 0 {
			return s
		}
		if len(enabled) == 0 {
			s.deadlock = s.lockTable()
			s.release()
			return s
		}
		pick := 0
		if len(enabled) > 1 {
			switch {
			case depth < len(s.prefix):
				pick = s.prefix[depth]
			case s.chooser != nil:
				pick = s.chooser(depth, enabled)
			}
			if pick >= len(enabled) {
				pick = len(enabled) - 1
			}
			s.taken = append(s.taken, pick)
			s.fanout = append(s.fanout, len(enabled))
			depth++
		}
		t := s.threads[enabled[pick]]
		s.grants = append(s.grants, t.id)
		if t.want != nil {
			s.held[t.want] = t.id
			t.want = nil
		}
		t.wake <- struct{}{}
		select {
		case m := <-s.yield:
			if m.finished {
				s.threads[m.id].finished = true
				if m.panicked != nil {
					s.panicked = m.panicked
				}
			}
		case <-time.After(20 * time.Second):
			// The running thread neither finished nor reached a hooked lock:
			// it blocks on synchronisation the hook does not see.
			s.abandoned = fmt.Sprintf("thread %d neither yielded nor finished within 20 s: %s", t.id, firstLines(vlib.AllStacks(), 40))
			return s
		}
	}
}

// hook runs in the goroutine that is about to lock / has just unlocked mu.
func (s *steer) hook(mu *sync.Mutex, phase int) {
	v, ok := s.byGoid.Load(vlib.Goid())
	if !ok {
		return // not a logical thread of the program under test
	}
	t := v.(*sthread)
	if phase == 1 {
		if owner, ok := s.held[mu]; ok && owner == t.id {
			delete(s.held, mu)
		}
		return
	}
	t.want = mu
	s.yield <- yieldMsg{id: t.id}
	<-t.wake
}

func (s *steer) lockTable() string {
	out := ""
	for _, t := range s.threads {
		if t.finished {
			continue
		}
		holder := "?"
		if h, ok := s.held[t.want]; ok {
			holder = fmt.Sprint(h)
		}
		out += fmt.Sprintf("thread %d waits for %p held by thread %s; ", t.id, t.want, holder)
	}
	return out
}

// release lets deadlocked threads go so that their goroutines do not pile up:
// nothing can be done for a real deadlock, the goroutines stay parked.
func (s *steer) release() {}

// exploreAll enumerates every schedule of the program by depth-first
// re-execution. mk builds a fresh instance of the program (fresh state) and
// returns its thread functions and an outcome function evaluated afterwards.
// visit is called once per execution. Returns (executions, complete).
func exploreAll(mk func() ([]func(), func() string), maxExec int, visit func(s *steer, outcome string) bool) (int, bool) {
	var prefix []int
	n := 0
	for {
		fns, outcome := mk()
		s := runSteered(fns, prefix, nil)
		n++
		o := ""
		if s.deadlock == "" && s.abandoned == "" {
			o = outcome()
		}
		if !visit(s, o) || s.abandoned != "" {
			return n, false
		}
		// backtrack
		taken, fan := s.taken, s.fanout
		i := len(taken) - 1
		for i >= 0 && taken[i]+1 >= fan[i] {
			i--
		}
		if i < 0 {
			return n, true
		}
		prefix = append(append([]int{}, taken[:i]...), taken[i]+1)
		if n >= maxExec {
			return n, false
		}
	}
}
