package main

import (
	"bytes"
	"context"
	"fmt"
	"io"
	"os"
	"strconv"
	"strings"
	"sync"
	"sync/atomic"
	"syscall"
	"time"

	"github.com/metal-toolbox/auditevent"

	"github.com/metal-toolbox/audito-maldito/internal/common"
	"github.com/metal-toolbox/audito-maldito/internal/health"
	"github.com/metal-toolbox/audito-maldito/processors/auditd"
	"github.com/metal-toolbox/audito-maldito/processors/sshd"
	"github.com/metal-toolbox/audito-maldito/verif/vlib"
)

func init() {
	register("C10", "exploration", checkC10)
	childEntries["c10"] = childC10
}

// daemonRun plays one scenario against the built daemon and returns the
// parsed output. ok=false means the run could not be observed (daemon died or
// the barrier never showed up); the caller decides what that means.
type daemonRunResult struct {
	sc       *dScenario
	out      *parsedOutput
	overlaps int64
	ok       bool
	why      string
	races    int
	raceSum  string
	exit     int
	pre      []byte // what the events file held before the daemon started
	head     []byte // the same number of bytes from the start of the file afterwards
}

func daemonRun(r *vlib.Rng, nsess int, big, uncorrelated, race, phased bool) *daemonRunResult {
	res := &daemonRunResult{}
	// every third scenario runs the daemon at debug log level
	lvl := ""
	if r.Intn(3) == 0 {
		lvl = "debug"
	}
	// C10's scenarios: every other run starts on an events file that already
	// holds the output of an earlier run (a restart), which must stay intact
	if big && r.Intn(2) == 0 {
		res.pre = earlierRunOutput(5 + r.Intn(60))
	}
	d, err := startDaemon(daemonOpts{race: race, logLevel: lvl, preexisting: res.pre})
	if err != nil {
		res.why = "cannot start daemon: " + err.Error()
		return res
	}
	defer d.cleanup()
	res.sc = genDaemonScenario(r, nsess, big, uncorrelated)
	ws, err1 := openFifoWriter(d, d.sshdPath)
	wa, err2 := openFifoWriter(d, d.auditPath)
	if err1 != nil || err2 != nil {
		res.why = fmt.Sprintf("cannot open FIFOs (daemon exited=%v): %v %v; stderr: %s", d.hasExited(), err1, err2, trunc(d.stderr.String(), 600))
		return res
	}
	defer ws.Close()
	defer wa.Close()
	if phased {
		res.sc.Phased = true
		if !playPhased(d, res.sc, ws, wa) {
			exited, dump := d.waitExit(time.Second)
			res.why = fmt.Sprintf("phased play failed (daemon exited=%v): %s", exited, trunc(d.stderr.String()+dump, 1500))
			return res
		}
	} else {
		res.overlaps = playScenario(d, res.sc, ws, wa)
	}
	if !markerBarrier(d, ws, wa, 90*time.Second) {
		exited, dump := d.waitExit(time.Second)
		res.why = fmt.Sprintf("marker barrier not reached (daemon exited=%v): %s", exited, trunc(d.stderr.String()+dump, 1500))
		return res
	}
	_ = d.cmd.Process.Signal(syscall.SIGTERM)
	if exited, dump := d.waitExit(60 * time.Second); !exited {
		stuck, why := classifyDaemonDump(dump)
		res.why = fmt.Sprintf("daemon did not exit after SIGTERM (stuck=%v %s)", stuck, why)
		return res
	}
	res.exit = d.exitStatus()
	raw := d.outputRaw()
	if len(raw) >= len(res.pre) {
		res.head = raw[:len(res.pre)]
	} else {
		res.head = raw
	}
	res.out = parseOutput(raw)
	res.races, res.raceSum = d.raceReports()
	res.ok = true
	return res
}

// daemonBurst: one correlated session whose events alternate between small and
// large (10-40 KiB, far beyond any 4 KiB write buffer) on the audit pipe while
// the sshd pipe carries a burst of failed-login lines at the same time: both
// pipelines write to the shared output continuously and concurrently.
func daemonBurst(r *vlib.Rng, nAudit, nSshd int, race bool) *daemonRunResult {
	res := &daemonRunResult{sc: &dScenario{Window: -1}}
	res.pre = earlierRunOutput(40)
	d, err := startDaemon(daemonOpts{race: race, preexisting: res.pre})
	if err != nil {
		res.why = "cannot start daemon: " + err.Error()
		return res
	}
	defer d.cleanup()
	ws, err1 := openFifoWriter(d, d.sshdPath)
	wa, err2 := openFifoWriter(d, d.auditPath)
	if err1 != nil || err2 != nil {
		res.why = fmt.Sprintf("cannot open FIFOs: %v %v", err1, err2)
		return res
	}
	defer ws.Close()
	defer wa.Close()
	se := &dSession{K: 1, Pid: 555001, Sid: "55501", User: "burst", KeyID: "burst@example.com", Addr: "10.5.5.5", Port: "5555", HasLogin: true, HasRec: true}
	res.sc.Sessions = []*dSession{se}
	io.WriteString(ws, loginLine(se))
	if !d.waitForOutput(func(b []byte) bool { return bytes.Contains(b, []byte(`"loggedAs":"burst"`)) }, 60*time.Second) {
		res.why = "burst: the login was not written"
		return res
	}
	io.WriteString(wa, vlib.AuLogin(vlib.BaseTSms, 5000, "555001", "55501")+"\n")
	var wg sync.WaitGroup
	wg.Add(2)
	go func() {
		defer wg.Done()
		for k := 1; k <= nAudit; k++ {
			args := []string{"tar", "czf", fmt.Sprintf("/tmp/%d.tgz", k)}
			if k%2 == 0 {
				for a := 0; a < 400+r.Intn(1200); a++ {
					args = append(args, fmt.Sprintf("file-number-%06d", a))
				}
			}
			ls := vlib.ExecSpec{TSms: vlib.BaseTSms + int64(k), Seq: uint32(5000 + k), PID: 555002, Ses: "55501", Success: "yes", Exe: "/usr/bin/tar", Args: args, Paths: []string{"/usr/bin/tar"}, Cwd: "/"}.Lines()
			if _, err := io.WriteString(wa, strings.Join(ls, "\n")+"\n"); err != nil {
				return
			}
			se.EvTS = append(se.EvTS, vlib.BaseTSms+int64(k))
		}
	}()
	var stopSshd int32
	sshdLines := 0
	go func() {
		defer wg.Done()
		// keeps writing until the audit side's last event has come out (at least nSshd lines)
		for k := 0; k < nSshd || atomic.LoadInt32(&stopSshd) == 0; k++ {
			if _, err := io.WriteString(ws, fmt.Sprintf("%d Invalid user burst%d from 192.0.2.%d port %d\n", 600000+k, k, k%250, 1024+k%60000)); err != nil {
				return
			}
			sshdLines++
			if k > 3000000 {
				return
			}
		}
	}()
	// the audit pipeline lags behind its writer: wait until its last event is in the output
	lastMark := []byte(fmt.Sprintf("/tmp/%d.tgz", nAudit))
	deadline := time.Now().Add(120 * time.Second)
	for time.Now().Before(deadline) && !d.hasExited() {
		if tail := fileTail(d.outPath, 1<<20); bytes.Contains(tail, lastMark) {
			break
		}
		time.Sleep(20 * time.Millisecond)
	}
	atomic.StoreInt32(&stopSshd, 1)
	wg.Wait()
	res.sc.FailLogins = sshdLines
	res.overlaps = 1
	if !markerBarrier(d, ws, wa, 120*time.Second) {
		exited, dump := d.waitExit(time.Second)
		res.why = fmt.Sprintf("burst: marker barrier not reached (daemon exited=%v): %s", exited, trunc(d.stderr.String()+dump, 1200))
		return res
	}
	_ = d.cmd.Process.Signal(syscall.SIGTERM)
	if exited, _ := d.waitExit(60 * time.Second); !exited {
		res.why = "burst: daemon did not exit after SIGTERM"
		return res
	}
	raw := d.outputRaw()
	if len(raw) >= len(res.pre) {
		res.head = raw[:len(res.pre)]
	} else {
		res.head = raw
	}
	res.out = parseOutput(raw)
	res.races, res.raceSum = d.raceReports()
	res.ok = true
	return res
}

func fileTail(path string, n int64) []byte {
	f, err := os.Open(path)
	if err != nil {
		return nil
	}
	defer f.Close()
	st, err := f.Stat()
	if err != nil {
		return nil
	}
	off := st.Size() - n
	if off < 0 {
		off = 0
	}
	b := make([]byte, st.Size()-off)
	_, _ = f.ReadAt(b, off)
	return b
}

// openFifoWriter opens a FIFO for writing without hanging for ever if the
// daemon died before opening its end.
func openFifoWriter(d *daemon, path string) (*os.File, error) {
	deadline := time.Now().Add(60 * time.Second)
	for {
		fd, err := syscall.Open(path, syscall.O_WRONLY|syscall.O_NONBLOCK|syscall.O_CLOEXEC, 0)
		if err == nil {
			// back to blocking mode for plain sequential writes
			if err := syscall.SetNonblock(fd, false); err != nil {
				return nil, err
			}
			return os.NewFile(uintptr(fd), path), nil
		}
		if d.hasExited() || time.Now().After(deadline) {
			return nil, err
		}
		time.Sleep(time.Millisecond)
	}
}

func identOfEv(e *auditevent.AuditEvent) string {
	return jsonOf(e.Subjects) + jsonOf(e.Source) + jsonOf(e.Target)
}

// c10Check: whole lines, no duplicates, UserLogin before any UserAction with its identity.
func c10Check(r *vlib.Run, res *daemonRunResult, label string) {
	p := res.out
	if len(res.pre) > 0 {
		r.Add("runs_on_a_file_holding_an_earlier_runs_output", 1)
		if !bytes.Equal(res.pre, res.head) {
			r.Violation("C10:"+label+":earlier-output-damaged", fmt.Sprintf("the events file held %d bytes (%d events of an earlier run) when the daemon started; afterwards its first %d bytes differ: %s", len(res.pre), bytes.Count(res.pre, []byte("\n")), len(res.pre), trunc(string(res.head), 300)), map[string]any{"scenario_sessions": len(res.sc.Sessions)})
		}
	}
	for _, pr := range p.Problems {
		r.Violation("C10:"+label+":not-a-whole-event", pr, map[string]any{"scenario_sessions": len(res.sc.Sessions)})
	}
	seen := map[string]int{}
	loginAt := map[string]int{}
	for i := range p.Events {
		e := &p.Events[i]
		var key string
		if e.Type == "UserLogin" {
			key = "L|" + e.Subjects["pid"] + "|" + e.Subjects["loggedAs"]
			if _, ok := loginAt[identOfEv(e)]; !ok {
				loginAt[identOfEv(e)] = i
			}
		} else {
			key = "A|" + e.Metadata.AuditID + "|" + strconv.FormatInt(e.LoggedAt.UnixMilli(), 10)
		}
		seen[key]++
		if seen[key] == 2 {
			r.Violation("C10:"+label+":written-twice", "event written twice: "+string(p.Raw[i]), map[string]any{"line": i + 1})
		}
	}
	for i := range p.Events {
		e := &p.Events[i]
		if e.Type != "UserAction" {
			continue
		}
		at, ok := loginAt[identOfEv(e)]
		if !ok {
			r.Violation("C10:"+label+":action-without-login-event", "UserAction whose identity matches no UserLogin in the output: "+string(p.Raw[i]), map[string]any{"line": i + 1})
		} else if at > i {
			r.Violation("C10:"+label+":action-before-its-login", fmt.Sprintf("UserAction on line %d precedes the UserLogin with its identity on line %d: %s", i+1, at+1, string(p.Raw[i])), map[string]any{"line": i + 1})
		}
	}
}

// ---------- in-process variant under -race ----------

func childC10(args []string) {
	_, seed, from, to, out, _ := childArgs(args)
	defer out.finish()
	for b := from; b < to; b++ {
		out.begin(b, "hand-off batch")
		c10InProcess(seed, b, out)
	}
}

// c10InProcess: one shared EventWriter over the recorder; the sshd processor
// and Auditd.Read run concurrently; login line and LOGIN record of a session
// are released at the same instant.
func c10InProcess(seed int64, b int, out *childOut) {
	r := vlib.NewRng(seed, "C10/ip/"+strconv.Itoa(b))
	rec := vlib.NewRec()
	logins := make(chan common.RemoteUserLogin)
	audits := make(chan string, 64)
	ctx, cancel := context.WithCancel(context.Background())
	defer cancel()
	w := rec.Writer()
	proc := sshd.NewSshdProcessor(ctx, logins, vNode, vMID, w, newMetrics())
	a := auditd.Auditd{Audits: audits, Logins: logins, EventW: w, Health: health.NewHealth()}
	done := make(chan error, 1)
	go func() { done <- a.Read(ctx) }()
	const N = 20
	seq := uint32(100)
	for k := 0; k < N; k++ {
		pid := 50000 + b*N + k
		sid := strconv.Itoa(3000 + k)
		s := &dSession{K: b*N + k, Pid: pid, User: fmt.Sprintf("u%d", b*N+k), KeyID: fmt.Sprintf("k%d", b*N+k), Addr: "10.9.8.7", Port: strconv.Itoa(1000 + k)}
		line := loginLine(s)
		msg := line[len(strconv.Itoa(pid))+1 : len(line)-1]
		var wg sync.WaitGroup
		start := make(chan struct{})
		wg.Add(2)
		go func() {
			defer wg.Done()
			<-start
			_ = proc.ProcessSshdLogEntry(ctx, sshd.SshdLogEntry{PID: strconv.Itoa(pid), Message: msg})
		}()
		go func() {
			defer wg.Done()
			<-start
			give := func(l string) {
				select {
				case audits <- l:
				case <-time.After(30 * time.Second): // Read is gone: the order check below reports what was written
				}
			}
			seq++
			give(vlib.AuLogin(vlib.BaseTSms+int64(k*10), seq, strconv.Itoa(pid), sid))
			for e := 1; e <= 1+r.Intn(3); e++ {
				seq++
				give(vlib.AuUser("USER_START", vlib.BaseTSms+int64(k*10+e), seq, pid, sid, "PAM:x", "success"))
			}
		}()
		close(start)
		wg.Wait()
		out.add("handoffs", 1)
	}
	// drain: a final sentinel pair
	for k := 0; k < 2; k++ {
		seq++
		select {
		case audits <- vlib.AuUser("USER_ACCT", vlib.BaseTSms+900000+int64(k), seq, 1, "4294967295", "x", "success"):
		case <-time.After(30 * time.Second):
		}
	}
	deadline := time.Now().Add(10 * time.Second)
	for len(audits) > 0 && time.Now().Before(deadline) {
		time.Sleep(100 * time.Microsecond)
	}
	cancel()
	select {
	case <-done:
	case <-time.After(30 * time.Second):
		out.inconclusive("C10 in-process: Read did not return")
		return
	}
	calls := rec.Calls()
	loginRet := map[string]int64{}
	for _, c := range calls {
		if c.Ev.Type == "UserLogin" {
			loginRet[identOfEv(&c.Ev)] = c.SeqRet
		}
	}
	for _, c := range calls {
		if c.Ev.Type != "UserAction" {
			continue
		}
		out.add("useractions_order_checked", 1)
		lr, ok := loginRet[identOfEv(&c.Ev)]
		if !ok || !(lr < c.Seq) {
			out.violation("C10:in-process:action-before-its-login", fmt.Sprintf("UserAction write started at %d, UserLogin write returned at %d (ok=%v): %s", c.Seq, lr, ok, c.Snap), map[string]any{"batch": b})
		}
	}
	out.class("inproc|" + strconv.Itoa(len(calls)))
}

func checkC10(r *vlib.Run) int {
	nScen := r.Pick(6, 30)
	lines, bytesTotal, largest, sessions := 0, 0, 0, 0
	var overlaps int64
	dist := vlib.NewDistinct()
	evals := 0
	races := 0
	builds := []bool{false}
	if r.Thorough() {
		builds = append(builds, true)
	}
	for _, race := range builds {
		for s := 0; s < nScen; s++ {
			rng := vlib.NewRng(r.Seed, fmt.Sprintf("C10/%v/%d", race, s))
			nsess := 50 + rng.Intn(r.Pick(150, 450))
			res := daemonRun(rng, nsess, true, false, race, s%3 == 1)
			if !res.ok {
				r.Broken("daemon scenario could not be observed: " + res.why)
				continue
			}
			evals++
			c10Check(r, res, "daemon")
			if res.races > 0 {
				races += res.races
				r.Violation("C10:daemon:data-race", fmt.Sprintf("%d race reports in the -race daemon: %s", res.races, res.raceSum), map[string]any{"scenario": s})
			}
			lines += len(res.out.Events)
			bytesTotal += res.out.Bytes
			if res.out.Largest > largest {
				largest = res.out.Largest
			}
			sessions += len(res.sc.Sessions)
			overlaps += res.overlaps
			dist.Add(fmt.Sprintf("race=%v|window=%d|phased=%v|sessions=%d", race, res.sc.Window, res.sc.Phased, nsess))
			if res.sc.Phased {
				r.Add("phased_scenarios_audit_first", 1)
			}
			if s == 0 && !race {
				r.Sample(map[string]any{"sessions": nsess, "window": res.sc.Window, "output_lines": len(res.out.Events), "first_line": string(res.out.Raw[0])})
			}
		}
	}
	// sustained concurrent writing with large events
	for b := 0; b < r.Pick(1, 6); b++ {
		rng := vlib.NewRng(r.Seed, fmt.Sprintf("C10/burst/%d", b))
		res := daemonBurst(rng, r.Pick(1500, 4000), r.Pick(15000, 40000), false)
		if !res.ok {
			r.Broken("burst scenario could not be observed: " + res.why)
			continue
		}
		evals++
		c10Check(r, res, "daemon-burst")
		want := len(res.sc.Sessions[0].EvTS) + 1
		got := 0
		for i := range res.out.Events {
			if res.out.Events[i].Metadata.AuditID == "55501" {
				got++
			}
		}
		if got != want {
			r.Violation("C10:daemon-burst:session-event-count", fmt.Sprintf("%d events of the burst session were written, %d were sent", got, want), map[string]any{"burst": b})
		}
		lines += len(res.out.Events)
		bytesTotal += res.out.Bytes
		if res.out.Largest > largest {
			largest = res.out.Largest
		}
		r.Add("burst_scenarios", 1)
		r.Add("burst_output_lines", len(res.out.Events))
		dist.Add(fmt.Sprintf("burst|%d", b))
	}
	nIP := r.Pick(200, 20000) / 20
	ip := runChildren(r, "mon-race", "c10", nIP, (nIP+15)/16, 15*time.Minute)
	for _, k := range ip.distinct.Keys() {
		dist.Add(k)
	}
	r.Set("daemon_scenarios", evals)
	r.Set("output_lines_parsed", lines)
	r.Set("output_bytes", bytesTotal)
	r.Set("largest_line_bytes", largest)
	r.Set("sessions", sessions)
	r.Set("writes_while_both_writers_active", int(overlaps))
	r.Set("race_reports", races)
	r.Set("in_process_handoffs", ip.stats["handoffs"])
	r.Set("in_process_useractions_order_checked", ip.stats["useractions_order_checked"])
	r.Require(lines > 500, "fewer than 500 output lines parsed")
	r.Require(largest > 20000, "no large (>20 kB) event line was produced")
	r.Require(overlaps > 0, "the two writers were never active at the same time")
	r.Require(r.Get("phased_scenarios_audit_first") > 0, "no phased (audit records first) scenario was run")
	r.Require(ip.stats["useractions_order_checked"] > 100, "too few in-process order checks")
	r.Assumptions = []string{"atomicity of one write(2) on an O_APPEND regular file is an OS guarantee that is observed, not established",
		"a daemon that dies or never reaches the marker barrier makes the run 'check broken', not a violation of this property"}
	return r.Finish(evals+ip.stats["handoffs"], dist.Len(), "built daemon, two FIFOs written concurrently by two writers within a window of 0/1/4/32/unbounded items, 50-500 sessions with events from 200 B to 64 KiB, marker-session barrier, SIGTERM, then every output line must be one whole JSON audit event, written once, each UserAction after the UserLogin with its identity; plus a burst scenario (one session alternating small and 10-40 KiB events while the sshd pipe carries 15000+ failed-login lines); plus in-process runs under -race with one shared writer and login line / LOGIN record released at the same instant; distinct = (build, window, session count) and in-process batch shapes")
}

// daemonCorrelation is level (c) of C01/C02/C04 (thorough tier): identities,
// exactly-once and silence checked on the daemon's output file.
func daemonCorrelation(r *vlib.Run, class string) {
	nScen := r.Pick(4, 20)
	checked, lines := 0, 0
	for s := 0; s < nScen; s++ {
		rng := vlib.NewRng(r.Seed, fmt.Sprintf("%s/daemon/%d", class, s))
		res := daemonRun(rng, 50+rng.Intn(150), false, class == "C04", false, s%4 == 1)
		if !res.ok {
			r.Broken("daemon scenario could not be observed: " + res.why)
			continue
		}
		lines += len(res.out.Events)
		byTS := map[int64][]*auditevent.AuditEvent{}
		for i := range res.out.Events {
			e := &res.out.Events[i]
			if e.Type == "UserAction" {
				byTS[e.LoggedAt.UnixMilli()] = append(byTS[e.LoggedAt.UnixMilli()], e)
			}
		}
		for _, se := range res.sc.Sessions {
			want := fmt.Sprintf(`{"loggedAs":"%s","pid":"%d","userID":"%s"}`, se.User, se.Pid, se.KeyID)
			for _, ts := range append(append(append([]int64{}, se.PreTS...), se.EvTS...), se.PostTS...) {
				for _, e := range byTS[ts] {
					checked++
					if class == "C01" && (jsonOf(e.Subjects) != want || e.Source.Value != se.Addr || e.Metadata.AuditID != se.Sid) {
						r.Violation("C01:daemon:foreign-identity", fmt.Sprintf("event of session %s (pid %d) carries %s from %s", se.Sid, se.Pid, jsonOf(e.Subjects), e.Source.Value), map[string]any{"scenario": s})
					}
					if class == "C04" && (!se.HasLogin || !se.HasRec) {
						r.Violation("C04:daemon:uncorrelated-emitted", fmt.Sprintf("event of session %s emitted although hasLogin=%v hasRec=%v", se.Sid, se.HasLogin, se.HasRec), map[string]any{"scenario": s})
					}
				}
			}
			if class == "C04" {
				for _, ts := range se.PreTS {
					if len(byTS[ts]) > 0 {
						r.Violation("C04:daemon:pre-login-record-event-emitted", fmt.Sprintf("event preceding the LOGIN record of session %s was emitted", se.Sid), map[string]any{"scenario": s})
					}
				}
			}
			if class == "C02" && se.HasLogin && se.HasRec {
				for _, ts := range se.EvTS {
					if n := len(byTS[ts]); n != 1 {
						sig := "lost"
						if n > 1 {
							sig = "duplicated"
						}
						r.Violation("C02:daemon:"+sig, fmt.Sprintf("event ts=%d of session %s (pid %d) appears %d times in the output", ts, se.Sid, se.Pid, n), map[string]any{"scenario": s, "window": res.sc.Window})
					}
				}
			}
		}
		if class == "C04" {
			for ts, kind := range res.sc.UncorrTS {
				if len(byTS[ts]) > 0 {
					r.Violation("C04:daemon:uncorrelated-emitted:"+kind, fmt.Sprintf("%s event ts=%d was emitted", kind, ts), map[string]any{"scenario": s})
				}
			}
		}
	}
	r.Set("daemon_scenarios", nScen)
	r.Set("daemon_output_lines", lines)
	r.Set("daemon_user_actions_checked", checked)
}
