package main

import (
	"context"
	"encoding/json"
	"errors"
	"fmt"
	"strconv"
	"strings"
	"time"

	"github.com/metal-toolbox/audito-maldito/verif/vlib"
)

func init() {
	register("C06", "exploration", checkC06)
	register("C19", "exploration", checkC19)
	register("C17", "exploration", checkC17)
	register("C11", "exploration", checkC11)
	childEntries["c06"] = childC06
	childEntries["c19"] = childC19
	childEntries["c17"] = childC17
	childEntries["c11"] = childC11
}

var pidTokens = []string{"1", "7", "25007", "4194304", "2147483647"}

// ---------------- C06 ----------------

func c06Corpus(tier string, seed int64) *vlib.SshCorpusT {
	n := 120000
	if tier == "thorough" {
		n = 3000000
	}
	return vlib.NewSshCorpus(seed, "C06", n, vlib.SshForms)
}

func childC06(args []string) {
	tier, seed, from, to, out, _ := childArgs(args)
	defer out.finish()
	corpus := c06Corpus(tier, seed)
	h := newSshHarness(8)
	// second harness: nobody will ever receive a login and the context is
	// already cancelled - the event must be produced all the same
	hc := newSshHarness(0)
	cctx, ccancel := context.WithCancel(context.Background())
	ccancel()
	ctx := context.Background()
	for i0 := from; i0 < to && i0 < corpus.Len(); i0++ {
		// every seventeenth line is the previous one once more, same PID: a line is
		// processed for what it says, whatever came before it
		i := i0
		if i0 >= corpus.PrefixLen()+1 { // the each-choice cases all run; repeats replace random ones
			i = repeatIdx(i0, from)
		}
		if i != i0 {
			out.add("lines_repeating_the_previous_line", 1)
		}
		c := corpus.At(i)
		pid := pidTokens[i%len(pidTokens)]
		out.begin(i0, c.Msg)
		var o sshObs
		if c.Accepted && i%8 == 3 {
			o = hc.observe(cctx, "direct", pid, c.Msg, "", false)
			out.add("accepted_lines_with_cancelled_context_and_unready_correlator", 1)
		} else {
			o = h.observe(ctx, "direct", pid, c.Msg, "", false)
		}
		out.add("lines", 1)
		out.add("form:"+c.Form, 1)
		out.class(c.Class)
		wit := map[string]any{"index": i, "pid": pid, "case": c}
		if o.Panic != "" {
			out.violation("C06:panic:"+c.Form, "panic: "+o.Panic+" on "+c.Msg, wit)
			continue
		}
		if o.Err != nil {
			out.violation("C06:error:"+c.Form, fmt.Sprintf("error %v on %q", o.Err, c.Msg), wit)
			continue
		}
		if len(o.Calls) != 1 {
			out.violation(fmt.Sprintf("C06:events=%d:%s", len(o.Calls), c.Form), fmt.Sprintf("%d events for %q", len(o.Calls), c.Msg), wit)
			continue
		}
		ev := o.Calls[0].Ev
		if d := eventDiff(&ev, c.Expected(pid), o.T0, o.T1); d != "" {
			field := strings.SplitN(d, "=", 2)[0]
			out.violation("C06:field:"+c.Form+":"+field, fmt.Sprintf("%s | line %q", d, c.Msg), wit)
			continue
		}
		out.add("events_compared", 1)
		if i%9973 == 0 {
			out.sample(map[string]any{"line": c.Msg, "pid": pid, "expected": c.Expected(pid)})
		}
	}
}

func checkC06(r *vlib.Run) int {
	n := c06Corpus(r.Tier, r.Seed).Len()
	res := runChildren(r, "mon", "c06", n, (n+47)/48, 10*time.Minute)
	forms := map[string]int{}
	for k, v := range res.stats {
		if strings.HasPrefix(k, "form:") {
			forms[k[5:]] = v
		}
	}
	r.Set("lines_per_form", forms)
	r.Set("events_compared", res.stats["events_compared"])
	r.Set("accepted_lines_with_cancelled_context_and_unready_correlator", res.stats["accepted_lines_with_cancelled_context_and_unready_correlator"])
	r.Require(len(forms) == len(vlib.SshForms), "not every message form was exercised")
	r.Require(res.stats["lines"] == n, fmt.Sprintf("children processed %d of %d lines", res.stats["lines"], n))
	r.Assumptions = []string{"field values are drawn from the domains listed in the quantifier; values that make a message inherently ambiguous (e.g. an address containing ' port ') are not generated",
		"for failed-password and max-auth-attempts only the valid-account rendering is used here (the 'invalid user ' rendering is C17's)"}
	return r.Finish(res.stats["lines"], res.distinct.Len(), "21 message forms (3 accepted, 18 failure) x each-choice coverage of every boundary pool (names, IPv4/IPv6/zone/host addresses, ports, key types, hash names, key ids, serials, shells, paths, DNS names, reasons) then seeded random draws; expected event built from the fields; distinct = field-shape classes (form x address kind x name class x key type x hash x port class x id class)")
}

// ---------------- C19 ----------------

func childC19(args []string) {
	tier, seed, from, to, out, _ := childArgs(args)
	defer out.finish()
	corpus := c06Corpus(tier, seed)
	nValid := corpus.Len()
	h := newSshHarness(8)
	// second harness: cancelled context, nobody receives logins - an emitted
	// event must be counted all the same
	hcan := newSshHarness(0)
	cctx, ccancel := context.WithCancel(context.Background())
	ccancel()
	ctx := context.Background()
	for i0 := from; i0 < to; i0++ {
		i := i0
		if i0 >= corpus.PrefixLen()+1 {
			i = repeatIdx(i0, from)
		}
		if i != i0 {
			out.add("lines_repeating_the_previous_line", 1)
		}
		var pid, msg, form string
		accepted := false
		if i < nValid {
			c := corpus.At(i)
			pid, msg, form = pidTokens[i%len(pidTokens)], c.Msg, c.Form
			accepted = c.Accepted
		} else if i < nValid+c19N17(tier) {
			// the failed-login forms in both renderings ("... for invalid user X ...") with C17's names
			c := c17Gen(seed, i-nValid)
			pid, msg, form = pidTokens[i%len(pidTokens)], c.Msg, "c17:"+c.Form
			out.add("c17_lines", 1)
		} else {
			hc := hostileCase(seed, i-nValid-c19N17(tier))
			pid, msg, form = hc.PID, hc.Msg, "hostile:"+hc.Class
		}
		out.begin(i, msg)
		var o sshObs
		if accepted && i%8 == 5 {
			o = hcan.observe(cctx, "direct", pid, msg, "", true)
			out.add("accepted_lines_with_cancelled_context", 1)
			form += "|cancelled-context"
		} else {
			o = h.observe(ctx, "direct", pid, msg, "", true)
		}
		out.add("lines", 1)
		wit := map[string]any{"index": i, "pid": pid, "msg": msg, "delta": o.Delta}
		if o.Panic != "" {
			continue // C11's subject
		}
		total := 0.0
		for _, v := range o.Delta {
			total += v
		}
		kw := hasKeyword(msg)
		if !kw {
			out.add("lines_without_keyword", 1)
			if len(o.Delta) != 0 {
				out.violation("C19:counter-changed-without-keyword", fmt.Sprintf("line %q changed counters: %s", msg, deltaString(o.Delta)), wit)
			}
		}
		if len(o.Calls) == 1 {
			out.add("lines_with_event", 1)
			ev := o.Calls[0].Ev
			if total != 1 || len(o.Delta) != 1 {
				out.violation("C19:delta!=1:"+form, fmt.Sprintf("one UserLogin emitted but counters moved by %s for %q", deltaString(o.Delta), msg), wit)
				continue
			}
			var label string
			for k := range o.Delta {
				label = k
			}
			out.class(label + "|" + form)
			parts := strings.SplitN(label, "/", 2)
			wantOutcome := "failure"
			if ev.Outcome == "succeeded" {
				wantOutcome = "success"
			}
			if parts[1] != wantOutcome {
				out.violation("C19:outcome-label:"+form, fmt.Sprintf("event outcome %s counted under %s for %q", ev.Outcome, label, msg), wit)
			}
			switch {
			case strings.HasPrefix(msg, "Accepted password"):
				if parts[0] != "password" {
					out.violation("C19:method-label:password", fmt.Sprintf("password login counted under %s", label), wit)
				}
			case strings.HasPrefix(msg, "Accepted publickey"):
				if parts[0] != "ssh-key" && parts[0] != "ssh-cert" {
					out.violation("C19:method-label:publickey", fmt.Sprintf("public-key login counted under %s", label), wit)
				}
			}
			if i%7919 == 0 {
				out.sample(map[string]any{"line": msg, "counter": label})
			}
		}
	}
}

// repeatIdx: case index for loop position i0 - every seventeenth position takes
// the previous position's case again (unless that one belonged to another batch).
func repeatIdx(i0, from int) int {
	if i0%17 == 8 && i0 > from {
		return i0 - 1
	}
	return i0
}

func c19N17(tier string) int {
	if tier == "thorough" {
		return 300000
	}
	return 20000
}

func checkC19(r *vlib.Run) int {
	nValid := c06Corpus(r.Tier, r.Seed).Len()
	nHost := r.Pick(30000, 1500000)
	if !r.Thorough() {
		nValid = 120000
	}
	n := nValid + c19N17(r.Tier) + nHost
	res := runChildren(r, "mon", "c19", n, (n+47)/48, 10*time.Minute)
	r.Set("failed_login_lines_in_both_renderings", res.stats["c17_lines"])
	r.Set("lines_with_event", res.stats["lines_with_event"])
	r.Set("lines_without_keyword", res.stats["lines_without_keyword"])
	r.Set("accepted_lines_with_cancelled_context", res.stats["accepted_lines_with_cancelled_context"])
	r.Set("label_form_pairs_observed", res.distinct.Keys())
	r.Require(res.stats["lines"] == n, "children did not process every line")
	r.Require(res.stats["lines_with_event"] > 1000 && res.stats["lines_without_keyword"] > 1000, "too few lines with event / without keyword")
	r.Assumptions = []string{"counters are read with Gather() on a private registry before and after each line, single-threaded"}
	return r.Finish(res.stats["lines"], res.distinct.Len(), "the C06 corpus (all forms), the C17 corpus (failed-login forms in the plain and the 'invalid user' rendering, adversarial names) and the C11 hostile corpus; per line the remote_logins_total delta per (method,outcome) label; distinct = (label, form) pairs observed")
}

// ---------------- C17 ----------------

type c17Case struct {
	Form, Name, Addr, Port, Msg string
	Invalid                     bool
	Class                       string
}

func c17Name(r *vlib.Rng, addr, port string) (string, string) {
	otherAddr := vlib.PickOne(r, []string{"6.6.6.6", "::1", "2001:db8::bad", "evil.example.org"})
	otherPort := vlib.PickOne(r, []string{"1", "22", "65535", "0"})
	switch r.Intn(18) {
	case 0:
		return fmt.Sprintf("x from %s port %s", otherAddr, otherPort), "embedded-from-port"
	case 1:
		return fmt.Sprintf("x from %s port %s ssh2", otherAddr, otherPort), "embedded-from-port-ssh2"
	case 2:
		return fmt.Sprintf("a from %s port %s from %s port %s", otherAddr, otherPort, "7.7.7.7", "7"), "nested-twice"
	case 3:
		return " " + vlib.PickOne(r, vlib.PoolUsers), "leading-space"
	case 4:
		return vlib.PickOne(r, vlib.PoolUsers) + " ", "trailing-space"
	case 5:
		return " from ", "only-from"
	case 6:
		return " port ", "only-port"
	case 7:
		return "", "empty"
	case 8:
		return "a b", "inner-space"
	case 9:
		return vlib.PickOne(r, []string{"Invalid user x", "Failed password for y", "Accepted publickey for root", "User root", "ROOT LOGIN REFUSED FROM 1.1.1.1 port 1",
			// a complete message of every other form, as a user name
			"Authentication key RSA SHA256:abc revoked by file /etc/ssh/revoked_keys",
			"Error checking authentication key RSA SHA256:abc in revoked keys file /etc/ssh/revoked_keys",
			"Nasty PTR record \"evil\" is set up for 6.6.6.6, ignoring",
			"reverse mapping checking getaddrinfo for evil.example [6.6.6.6] failed.",
			"Address 6.6.6.6 maps to evil.example, but this does not map back to the address.",
			"maximum authentication attempts exceeded for root from 6.6.6.6 port 1 ssh2",
			"Authentication refused for root: bad owner or modes for /root/.ssh/authorized_keys",
			"Certificate invalid: expired",
			"User root from 6.6.6.6 not allowed because not listed in AllowUsers",
			"User root not allowed because shell /bin/false does not exist",
			"Accepted password for root from 6.6.6.6 port 1 ssh2",
			"ROOT LOGIN REFUSED FROM 6.6.6.6 port 1",
			"error: Authentication key RSA SHA256:abc revoked by file /x",
			"Accepted publickey for root from 6.6.6.6 port 1 ssh2: ED25519 SHA256:AAAAAAAAAAAAAAAAAAAAAAAAAAAAAAAAAAAAAAAAAAA",
			"Accepted publickey for root from 6.6.6.6 port 1 ssh2: ED25519-CERT SHA256:AAAAAAAAAAAAAAAAAAAAAAAAAAAAAAAAAAAAAAAAAAA ID root@evil (serial 1) CA ED25519 SHA256:BBBBBBBBBBBBBBBBBBBBBBBBBBBBBBBBBBBBBBBBBBB",
			"Invalid user root from 6.6.6.6 port 1",
			"Failed password for root from 6.6.6.6 port 1 ssh2",
		}), "other-keyword"
	case 10:
		return fmt.Sprintf("from %s port %s", addr, port), "same-peer-embedded"
	case 11:
		return "invalid user admin", "invalid-user-words"
	case 12:
		// printable ASCII soup, up to 100 chars
		n := r.Intn(101)
		b := make([]byte, n)
		for i := range b {
			b[i] = byte(32 + r.Intn(95))
		}
		return string(b), "ascii-soup"
	case 13:
		n := 1 + r.Intn(30)
		rs := make([]rune, n)
		al := []rune("äöüßπλжы用户名🙂 -_.@")
		for i := range rs {
			rs[i] = al[r.Intn(len(al))]
		}
		return string(rs), "unicode"
	case 14:
		return strings.Repeat(vlib.PickOne(r, []string{"a", " from ", " port 1", "ab "}), 100)[:100], "len100"
	case 15, 16:
		// what sshd, syslog and log shippers put around a message, as part of the name
		deco := vlib.PickOne(r, []string{" [preauth]", "[preauth]", " [preauth] ", "sshd[4242]: ", "error: ", "fatal: ", "\t", "\r", "  ",
			" ssh2", " ssh2: RSA SHA256:abc", "<38>", "Oct  4 12:00:00 host ", "\x00", "%s", "\\n", "(serial 1)", " ID x", " CA y"})
		switch r.Intn(4) {
		case 0:
			return "x" + deco, "log-decoration"
		case 1:
			return deco + "x", "log-decoration"
		case 2:
			return fmt.Sprintf("x from %s port %s ssh2%s", otherAddr, otherPort, deco), "log-decoration-after-embedded-peer"
		}
		return "a" + deco + "b", "log-decoration"
	}
	return vlib.PickOne(r, vlib.PoolUsers), "benign"
}

func c17Gen(seed int64, i int) c17Case {
	r := vlib.NewRng(seed, "C17/"+strconv.Itoa(i))
	addr := vlib.PickOne(r, vlib.PoolIPs)
	port := vlib.PickOne(r, vlib.PoolPorts)
	if r.Chance(30) {
		port = strconv.Itoa(r.Intn(65536))
	}
	name, cls := c17Name(r, addr, port)
	c := c17Case{Name: name, Addr: addr, Port: port}
	switch i % 5 {
	case 0:
		c.Form = "invalid-user"
		c.Msg = fmt.Sprintf("Invalid user %s from %s port %s", name, addr, port)
	case 1:
		c.Form = "failed-password"
		c.Msg = fmt.Sprintf("Failed password for %s from %s port %s ssh2", name, addr, port)
	case 2:
		c.Form, c.Invalid = "failed-password-invalid-user", true
		c.Msg = fmt.Sprintf("Failed password for invalid user %s from %s port %s ssh2", name, addr, port)
	case 3:
		c.Form = "max-auth-attempts"
		c.Msg = fmt.Sprintf("maximum authentication attempts exceeded for %s from %s port %s ssh2", name, addr, port)
	case 4:
		c.Form, c.Invalid = "max-auth-attempts-invalid-user", true
		c.Msg = fmt.Sprintf("maximum authentication attempts exceeded for invalid user %s from %s port %s ssh2", name, addr, port)
	}
	c.Class = c.Form + "|" + cls
	return c
}

func childC17(args []string) {
	_, seed, from, to, out, _ := childArgs(args)
	defer out.finish()
	h := newSshHarness(8)
	ctx := context.Background()
	for i := from; i < to; i++ {
		c := c17Gen(seed, i)
		via := "direct"
		line := ""
		pid := pidTokens[i%len(pidTokens)]
		if (i/5)%2 == 1 {
			via = "syslog"
			line = pid + " " + c.Msg + "\n"
		}
		out.begin(i, c.Msg)
		o := h.observe(ctx, via, pid, c.Msg, line, false)
		out.add("lines", 1)
		out.add("via:"+via, 1)
		out.class(c.Class + "|" + via)
		if strings.Contains(c.Name, " ") {
			out.add("names_with_space", 1)
		}
		if strings.Contains(c.Name, " from ") {
			out.add("names_with_from", 1)
		}
		if strings.Contains(c.Name, " port ") {
			out.add("names_with_port", 1)
		}
		wit := map[string]any{"index": i, "via": via, "pid": pid, "case": c}
		sigBase := "C17:" + c.Form + ":" + via + ":" + strings.SplitN(c.Class, "|", 2)[1]
		if o.Panic != "" || o.Err != nil {
			out.violation(sigBase+":panic-or-error", fmt.Sprintf("panic=%q err=%v on %q", o.Panic, o.Err, c.Msg), wit)
			continue
		}
		if len(o.Calls) != 1 {
			out.violation(sigBase+":dropped", fmt.Sprintf("%d events for %q (genuine peer %s port %s)", len(o.Calls), c.Msg, c.Addr, c.Port), wit)
			continue
		}
		ev := o.Calls[0].Ev
		gotPort := fmt.Sprint(ev.Source.Extra["port"])
		if ev.Source.Value != c.Addr || gotPort != c.Port {
			out.violation(sigBase+":forged-source", fmt.Sprintf("recorded %s port %s, genuine peer %s port %s, line %q", ev.Source.Value, gotPort, c.Addr, c.Port, c.Msg), wit)
			continue
		}
		if ev.Outcome != "failed" {
			out.violation(sigBase+":outcome", "outcome "+ev.Outcome, wit)
		}
		out.add("events_compared", 1)
		if i%7001 == 0 {
			out.sample(map[string]any{"line": c.Msg, "genuine": c.Addr + " port " + c.Port})
		}
	}
}

func checkC17(r *vlib.Run) int {
	n := r.Pick(240000, 3000000)
	res := runChildren(r, "mon", "c17", n, (n+47)/48, 10*time.Minute)
	r.Set("events_compared", res.stats["events_compared"])
	r.Set("names_with_space", res.stats["names_with_space"])
	r.Set("names_with_from_fragment", res.stats["names_with_from"])
	r.Set("names_with_port_fragment", res.stats["names_with_port"])
	r.Set("lines_via_processor", res.stats["via:direct"])
	r.Set("lines_via_syslog_ingester", res.stats["via:syslog"])
	r.Require(res.stats["lines"] == n, "children did not process every line")
	r.Require(res.stats["names_with_from"] > 100 && res.stats["names_with_port"] > 100, "too few adversarial names")
	r.Assumptions = []string{"the genuine peer address is one sshd can print (no spaces); user names contain no newline and are at most 100 characters"}
	return r.Finish(res.stats["lines"], res.distinct.Len(), "invalid-user / failed-password / max-auth-attempts lines (valid and 'invalid user ' renderings) with adversarial user names (embedded ' from <addr> port <n>' fragments, nested, spaces only, empty, other keywords, printable soup, unicode, 100 chars) x IPv4/IPv6/zone peers x boundary ports, through the processor and through the syslog ingester; distinct = form x name class x path")
}

// ---------------- C11 ----------------

type hostile struct {
	PID   string `json:"pid"`
	Msg   string `json:"msg"`
	Class string `json:"class"`
}

var hostilePIDs = []string{"", "abc", "0", "-1", "+7", "007", "99999999999999999999", " ", "1.5", "0x10", "١٢", "12", "4194304"}

var repLines = func() []vlib.SshCase {
	r := vlib.NewRng(1, "C11/representatives")
	var out []vlib.SshCase
	for _, f := range vlib.SshForms {
		out = append(out, vlib.GenSsh(r, f, -1, -1))
	}
	return out
}()

// truncation corpus: every representative truncated at every byte offset
var truncCases = func() []hostile {
	var out []hostile
	for _, c := range repLines {
		for cut := 0; cut <= len(c.Msg); cut++ {
			out = append(out, hostile{PID: "4242", Msg: c.Msg[:cut], Class: "truncate-byte:" + c.Form})
		}
	}
	return out
}()

func hostileCase(seed int64, i int) hostile {
	if i < len(truncCases) {
		return truncCases[i]
	}
	r := vlib.NewRng(seed, "C11/"+strconv.Itoa(i))
	pid := "4242"
	if r.Chance(35) {
		pid = vlib.PickOne(r, hostilePIDs)
	}
	base := vlib.GenSsh(r, vlib.PickOne(r, vlib.SshForms), -1, -1)
	toks := strings.Split(base.Msg, " ")
	switch r.Intn(14) {
	case 0: // random bytes
		n := r.Intn(200)
		if r.Chance(2) {
			n = 65536
		}
		b := make([]byte, n)
		for j := range b {
			b[j] = byte(r.Intn(256))
		}
		return hostile{pid, string(b), "random-bytes"}
	case 1: // keyword + random tail
		n := r.Intn(120)
		b := make([]byte, n)
		for j := range b {
			b[j] = byte(r.Intn(256))
		}
		return hostile{pid, vlib.PickOne(r, vlib.SshKeywords) + string(b), "keyword+random-tail"}
	case 2: // truncate after a token
		k := r.Intn(len(toks) + 1)
		return hostile{pid, strings.Join(toks[:k], " "), "truncate-token:" + base.Form}
	case 3: // lower-case / misspell keyword
		m := base.Msg
		if r.Bool() {
			m = strings.ToLower(m[:1]) + m[1:]
		} else if len(m) > 3 {
			m = m[:2] + m[3:]
		}
		return hostile{pid, m, "keyword-mangled:" + base.Form}
	case 4: // duplicated segment
		k := r.Intn(len(toks))
		d := append(append(append([]string{}, toks[:k+1]...), toks[k]), toks[k+1:]...)
		return hostile{pid, strings.Join(d, " "), "dup-token:" + base.Form}
	case 5: // swapped tokens
		if len(toks) > 2 {
			a, b := r.Intn(len(toks)), r.Intn(len(toks))
			toks[a], toks[b] = toks[b], toks[a]
		}
		return hostile{pid, strings.Join(toks, " "), "swap-token:" + base.Form}
	case 6: // prefixed
		return hostile{pid, vlib.PickOne(r, []string{"x", "error: ", "sshd: ", "\t", "\x00", "“"}) + base.Msg, "prefixed:" + base.Form}
	case 7: // suffixed
		return hostile{pid, base.Msg + vlib.PickOne(r, []string{" ", "\n", " extra", "\x00", ", publickey", " [preauth]", "\r"}), "suffixed:" + base.Form}
	case 8: // whitespace changes
		return hostile{pid, strings.ReplaceAll(base.Msg, " ", vlib.PickOne(r, []string{"  ", "\t", ""})), "whitespace:" + base.Form}
	case 9: // two messages glued
		o := vlib.GenSsh(r, vlib.PickOne(r, vlib.SshForms), -1, -1)
		return hostile{pid, base.Msg + vlib.PickOne(r, []string{" ", "\n", ""}) + o.Msg, "glued"}
	case 10: // accepted publickey with broken certificate tail (the slice arithmetic)
		a := vlib.GenSsh(r, "accepted-publickey", -1, -1)
		tail := vlib.PickOne(r, []string{" ", "  ", " ID", " ID x", " ID x (serial", " ID x (serial 1)", " ID x (serial 1) ", " ID  (serial 1) C", "x", " ID a (serial -1) CA b", " ID a (serial 1)\tCA", " (serial 1) CA x"})
		return hostile{pid, a.Msg + tail, "cert-tail"}
	case 11: // second "Accepted publickey" inside the line (match not at offset 0)
		a := vlib.GenSsh(r, "accepted-cert", -1, -1)
		return hostile{pid, "Accepted publickey " + vlib.PickOne(r, []string{"", "garbage ", "for "}) + a.Msg, "inner-match"}
	case 12: // valid message, hostile PID token
		return hostile{vlib.PickOne(r, hostilePIDs), base.Msg, "valid-msg-hostile-pid:" + base.Form}
	}
	// invalid UTF-8 / NUL / quotes injected into a field
	pos := r.Intn(len(base.Msg) + 1)
	inj := vlib.PickOne(r, []string{"\xff\xfe", "\x00", "\"", "'", "\\", "\xc3", "\xe2\x82", "\u2028", " "})
	return hostile{pid, base.Msg[:pos] + inj + base.Msg[pos:], "injected-bytes:" + base.Form}
}

var placeholders = map[string]bool{"unknown": true, "root": true, "unknown reason": true, "certificate invalid": true, vNode: true, vMID: true, "IP": true}

func childC11(args []string) {
	_, seed, from, to, out, _ := childArgs(args)
	defer out.finish()
	h := newSshHarness(8)
	ctx := context.Background()
	for i := from; i < to; i++ {
		c := hostileCase(seed, i)
		via := "direct"
		line := ""
		if i%2 == 1 {
			// through the syslog ingester: "<pid> <msg>"; the message seen by
			// the processor is what follows the first space, left-trimmed.
			via = "syslog"
			line = c.PID + " " + c.Msg
		}
		out.begin(i, c.PID+" "+c.Msg)
		o := h.observe(ctx, via, c.PID, c.Msg, line, false)
		out.add("inputs", 1)
		out.add("class:"+strings.SplitN(c.Class, ":", 2)[0], 1)
		if len(c.Msg) > out.stats["max:longest_line"] {
			out.stats["max:longest_line"] = len(c.Msg)
		}
		seenPID, seenMsg := c.PID, c.Msg
		if via == "syslog" {
			if sp := strings.IndexByte(line, ' '); sp >= 0 {
				seenPID, seenMsg = line[:sp], strings.TrimLeft(line[sp+1:], " ")
			} else {
				seenPID, seenMsg = "", ""
			}
		}
		wit := map[string]any{"index": i, "via": via, "case": c}
		cls := strings.SplitN(c.Class, ":", 2)[0]
		if o.Panic != "" {
			out.violation("C11:panic:"+cls, fmt.Sprintf("panic %q on pid=%q msg=%q", o.Panic, c.PID, c.Msg), wit)
			continue
		}
		if o.Err != nil {
			out.violation("C11:error:"+cls, fmt.Sprintf("error %v on pid=%q msg=%q", o.Err, c.PID, c.Msg), wit)
			continue
		}
		if len(o.Calls) > 1 {
			out.violation("C11:events>1:"+cls, fmt.Sprintf("%d events on msg=%q", len(o.Calls), c.Msg), wit)
			continue
		}
		if len(o.Logins) > 0 {
			out.add("inputs_forwarding_login", 1)
			if len(o.Logins) != 1 || len(o.Calls) != 1 || o.Calls[0].Ev.Outcome != "succeeded" {
				out.violation("C11:login-without-succeeded-event:"+cls, fmt.Sprintf("%d logins, %d events on msg=%q", len(o.Logins), len(o.Calls), c.Msg), wit)
				continue
			}
		}
		if len(o.Calls) == 0 {
			continue
		}
		out.add("inputs_emitting_event", 1)
		out.class(c.Class)
		if !hasKeyword(seenMsg) {
			out.violation("C11:event-without-keyword:"+cls, fmt.Sprintf("event emitted for msg=%q", seenMsg), wit)
			continue
		}
		// every extracted field is a substring of the line or a placeholder
		p := o.Calls[0].Ptr
		if p == nil {
			continue
		}
		check := func(name, v string, coerced bool) {
			if placeholders[v] || v == seenPID {
				return
			}
			if strings.Contains(seenMsg, v) {
				return
			}
			if coerced {
				if strings.Contains(coerce(seenMsg), v) {
					return
				}
				// a byte-offset slice may cut a multi-byte rune: v is then the
				// coercion of a byte substring that is not rune-aligned.
				for a := 0; a <= len(seenMsg) && a < 4096; a++ {
					if coerce(seenMsg[a:]) == v {
						return
					}
				}
				if len(seenMsg) <= 300 {
					for a := 0; a < len(seenMsg); a++ {
						for b := a + 1; b <= len(seenMsg); b++ {
							if coerce(seenMsg[a:b]) == v {
								return
							}
						}
					}
				}
			}
			out.violation("C11:fabricated-field:"+name+":"+cls, fmt.Sprintf("field %s=%q is not a substring of msg=%q", name, v, seenMsg), wit)
		}
		for k, v := range p.Subjects {
			check("subjects."+k, v, false)
		}
		check("source.value", p.Source.Value, false)
		for k, v := range p.Source.Extra {
			check("source.extra."+k, fmt.Sprint(v), false)
		}
		for k, v := range p.Metadata.Extra {
			check("metadata.extra."+k, fmt.Sprint(v), false)
		}
		if p.Data != nil {
			var m map[string]string
			if json.Unmarshal(*p.Data, &m) == nil {
				for k, v := range m {
					check("data."+k, v, true)
				}
			}
		}
		if i%5003 == 0 {
			out.sample(map[string]any{"pid": c.PID, "msg": c.Msg, "class": c.Class, "events": len(o.Calls)})
		}
	}
}

func checkC11(r *vlib.Run) int {
	n := r.Pick(400000, 10000000)
	classes := map[string]int{}
	total := 0
	dist := vlib.NewDistinct()
	var emitted, forwarded, longest, crashes int
	for _, bin := range []string{"mon", "mon-race"} {
		m := n
		if bin == "mon-race" {
			m = n / 10 // checkptr build: one order of magnitude slower
		}
		res := runChildren(r, bin, "c11", m, (m+47)/48, 15*time.Minute)
		total += res.stats["inputs"]
		emitted += res.stats["inputs_emitting_event"]
		forwarded += res.stats["inputs_forwarding_login"]
		crashes += res.crashes
		if res.stats["max:longest_line"] > longest {
			longest = res.stats["max:longest_line"]
		}
		for k, v := range res.stats {
			if strings.HasPrefix(k, "class:") {
				classes[k[6:]] += v
			}
		}
		for _, k := range res.distinct.Keys() {
			dist.Add(k)
		}
		r.Require(res.stats["inputs"] == m || res.crashes > 0, "children did not process every input")
	}
	r.Set("inputs_per_generator_class", classes)
	r.Set("inputs_emitting_an_event", emitted)
	r.Set("inputs_forwarding_a_login", forwarded)
	r.Set("longest_line_bytes", longest)
	r.Set("child_crashes", crashes)
	r.Set("truncation_inputs_every_byte_offset", len(truncCases))
	r.Set("builds", []string{"plain", "-race (implies checkptr)"})
	r.Require(emitted > 1000, "fewer than 1000 hostile inputs produced an event: the check would be vacuous")
	r.Require(forwarded > 100, "fewer than 100 hostile inputs forwarded a login")
	r.Assumptions = []string{"field values are compared as raw Go strings of the event object; data.* values (already JSON at that point) against the JSON-coerced line",
		"the message seen by the processor through the syslog ingester is what follows the first space, left-trimmed"}
	return r.Finish(total, dist.Len(), "every representative message truncated at every byte offset; then seeded hostile lines: random bytes (incl. 64 KiB), keyword+random tail, token truncation, mangled keywords, duplicated/swapped tokens, prefixes, suffixes, whitespace changes, glued messages, broken certificate tails, inner second match, hostile PID tokens, injected invalid UTF-8/NUL/quotes; through ProcessSshdLogEntry and SyslogIngester.Process alternately; plain and -race builds; distinct = generator classes among the inputs that produced an event")
}

var _ = errors.Is
