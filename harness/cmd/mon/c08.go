package main

import (
	"bytes"
	"fmt"
	"io"
	"net"
	"os"
	"path/filepath"
	"strconv"
	"strings"
	"sync/atomic"
	"syscall"
	"time"

	"github.com/metal-toolbox/audito-maldito/verif/vlib"
)

func init() {
	register("C08", "fault_enumeration", checkC08)
}

type c08Scenario struct {
	Cause     string
	Saturated bool
	Race      bool
	// NoWriter: the pipes the cause does not need are left without a writer,
	// so their ingesters are still waiting in open(2) when the cause strikes.
	NoWriter bool
	// Debug: the daemon runs with -log-level debug (a configuration dimension:
	// code that only runs at that level must not change the shutdown behaviour).
	Debug bool
	// HTTP: the daemon runs with -healthz -metrics (HTTP server on :2112 and two
	// more goroutines in the worker group); such scenarios run one at a time.
	HTTP bool
	// StuckScraper: with the HTTP server on, a client has pipelined many
	// /metrics requests and never reads the answers: its handler is parked in a
	// socket write when the cause strikes.
	StuckScraper bool
	// AuditMetrics: the daemon runs with -audit-metrics (one more errgroup
	// member: a ticker that stats the audit log), interval 20 ms.
	AuditMetrics bool
	// OutputMissing: the events output path does not exist (yet) when the daemon
	// starts; it waits for it before starting any worker. Signals only.
	OutputMissing bool
	// Early: the cause strikes right after the pipes were opened, while the
	// workers are still starting up, instead of in their steady state.
	Early bool
	// SshdLoad: accepted password logins keep streaming in on the sshd pipe while
	// the cause strikes (the sshd worker is busy handing logins over, not idle).
	SshdLoad bool
}

var c08Causes = []string{
	"sshd-pipe-eof", "audit-pipe-eof", "malformed-audit-line",
	// end-of-stream in the middle of a record (the writer died mid-line)
	"sshd-pipe-eof-mid-record", "audit-pipe-eof-mid-record",
	// not one offending record but a burst of them (each is an error of its own)
	"burst-of-unauditable-records",
	// the events output (a FIFO whose reader goes away) starts failing when an
	// audit event of a correlated session is written
	"write-failure-on-audit-event",
	"write-failure-on-sshd-line",
	"sshd-path-regular-file", "sshd-path-missing", "sshd-path-directory",
	"audit-path-regular-file", "audit-path-missing", "audit-path-directory",
	"SIGTERM", "SIGINT",
}

func failureCause(c string) bool { return c != "SIGTERM" && c != "SIGINT" }

// pump writes valid audit lines as fast as the pipe accepts them, counting
// how often write(2) would have blocked (pipe full => ingester not reading
// => internal buffer full).
type pump struct {
	stalls int64
	lines  int64
	stop   int32
	done   chan struct{}
	inject chan string // a line the pump writes next, in-stream, without a gap in the load
}

// startSshdPump keeps the sshd pipe busy with accepted password logins of
// sessions nobody will ever open (each login is handed to the audit worker).
func startSshdPump(path string, d *daemon) (*pump, error) {
	return startPumpGen(path, d, "", 0, func(seq int) []byte {
		time.Sleep(200 * time.Microsecond) // a busy sshd, not a flood: a few thousand logins a second
		return []byte(fmt.Sprintf("%d Accepted password for load%d from 10.8.0.1 port %d ssh2\n", 500000+seq, seq, 1024+seq%60000))
	})
}

func startPump(path string, d *daemon, ses string, pid int) (*pump, error) {
	return startPumpGen(path, d, ses, pid, nil)
}

func startPumpGen(path string, d *daemon, ses string, pid int, gen func(seq int) []byte) (*pump, error) {
	var fd int
	var err error
	deadline := time.Now().Add(60 * time.Second)
	for {
		fd, err = syscall.Open(path, syscall.O_WRONLY|syscall.O_NONBLOCK|syscall.O_CLOEXEC, 0)
		if err == nil {
			break
		}
		if d.hasExited() || time.Now().After(deadline) {
			return nil, err
		}
		time.Sleep(time.Millisecond)
	}
	p := &pump{done: make(chan struct{}), inject: make(chan string, 1)}
	go func() {
		defer close(p.done)
		defer syscall.Close(fd)
		seq := 10
		// whole lines only: stop is honoured at line boundaries, so that
		// whatever is written next starts a fresh record.
		for atomic.LoadInt32(&p.stop) == 0 {
			seq++
			var buf []byte
			switch {
			case gen != nil:
				buf = gen(seq)
			case ses == "":
				buf = append([]byte(vlib.AuUser("USER_ACCT", vlib.BaseTSms+int64(seq), uint32(seq), 1, "4294967295", "PAM:accounting", "success")), '\n')
			case seq == 11:
				buf = append([]byte(vlib.AuLogin(vlib.BaseTSms+int64(seq), uint32(seq), strconv.Itoa(pid), ses)), '\n')
			default:
				// events of a correlated session: each is rendered and written, so
				// the audit processor is slower than the ingester and the
				// hand-over buffer between them really fills up
				buf = append([]byte(vlib.AuUser("USER_START", vlib.BaseTSms+int64(seq), uint32(seq), pid, ses, "PAM:session_open", "success")), '\n')
			}
			last := false
			select {
			case l := <-p.inject:
				buf = []byte(l)
				last = !strings.HasSuffix(l, "\n") // an unterminated record is the last thing this writer says
			default:
			}
			for len(buf) > 0 {
				n, err := syscall.Write(fd, buf)
				if n > 0 {
					buf = buf[n:]
				}
				if err == syscall.EAGAIN {
					atomic.AddInt64(&p.stalls, 1)
					time.Sleep(100 * time.Microsecond)
					continue
				}
				if err != nil {
					return // EPIPE: the daemon closed its end
				}
			}
			atomic.AddInt64(&p.lines, 1)
			if last {
				return
			}
		}
	}()
	return p, nil
}

// inject writes bytes through the same non-blocking discipline.
func (p *pump) halt() {
	atomic.StoreInt32(&p.stop, 1)
	<-p.done
}

// c08Hangs counts "daemon keeps running" verdicts: each costs a full watchdog,
// and after a handful the remaining scenarios would only repeat the finding.
var c08Hangs int32

func c08Run(r *vlib.Run, sc c08Scenario, idx int) (evaluated bool) {
	if atomic.LoadInt32(&c08Hangs) >= 6 {
		r.Add("scenarios_skipped_after_six_hang_verdicts", 1)
		return false
	}
	label := fmt.Sprintf("%s/saturated=%v/no-writer=%v/debug=%v/race=%v", sc.Cause, sc.Saturated, sc.NoWriter, sc.Debug, sc.Race)
	o := daemonOpts{race: sc.Race}
	if sc.Debug {
		o.logLevel = "debug"
	}
	if sc.HTTP {
		o.extra = []string{"-healthz", "-metrics"}
		label += "/http-server"
	}
	if sc.AuditMetrics {
		o.extra = append(o.extra, "-audit-metrics", "-audit-seconds-interval", "20ms")
		label += "/audit-metrics"
	}
	scratch, _ := os.MkdirTemp("", "verif-c08-")
	defer os.RemoveAll(scratch)
	if sc.OutputMissing {
		o.outPath = filepath.Join(scratch, "events-output-not-there-yet.log")
		label += "/output-missing"
	}
	switch sc.Cause {
	case "write-failure-on-audit-event":
		o.outFifo = true
	case "write-failure-on-sshd-line":
		o.outPath = "/dev/full"
	case "sshd-path-regular-file":
		o.sshdPath = filepath.Join(scratch, "regular")
		os.WriteFile(o.sshdPath, []byte("x\n"), 0o644)
	case "sshd-path-missing":
		o.sshdPath = filepath.Join(scratch, "does-not-exist")
	case "sshd-path-directory":
		o.sshdPath = scratch
	case "audit-path-regular-file":
		o.auditPath = filepath.Join(scratch, "regular")
		os.WriteFile(o.auditPath, []byte("x\n"), 0o644)
	case "audit-path-missing":
		o.auditPath = filepath.Join(scratch, "does-not-exist")
	case "audit-path-directory":
		o.auditPath = scratch
	}
	d, err := startDaemon(o)
	if err != nil {
		r.Inconclusive(label + ": cannot start daemon: " + err.Error())
		return false
	}
	if os.Getenv("VERIF_DEBUG") != "" {
		fmt.Println("DEBUG start", time.Now().Format("15:04:05.000"), label, fmt.Sprintf("%+v", sc))
		defer func() { fmt.Println("DEBUG end  ", time.Now().Format("15:04:05.000"), label, fmt.Sprintf("%+v", sc)) }()
	}
	defer d.cleanup()
	wit := map[string]any{"scenario": sc, "index": idx}
	sig := "C08:" + sc.Cause
	if sc.Saturated {
		sig += ":saturated"
	}
	if sc.NoWriter {
		sig += ":no-writer-on-other-pipe"
	}
	if sc.Debug {
		sig += ":log-level-debug"
	}
	if sc.HTTP {
		sig += ":with-http-server"
	}
	if sc.AuditMetrics {
		sig += ":with-audit-metrics"
	}
	if sc.OutputMissing {
		sig += ":output-file-missing"
	}
	misconfigured := strings.Contains(sc.Cause, "-path-")
	var ws, wa *os.File
	var pm *pump
	bound := false
	_ = misconfigured
	openHealthy := func(path string) *os.File {
		f, err := openFifoWriter(d, path)
		if err != nil {
			return nil
		}
		return f
	}
	needS := strings.HasPrefix(sc.Cause, "sshd-pipe-eof") || sc.Cause == "write-failure-on-sshd-line" || sc.Cause == "write-failure-on-audit-event"
	needA := strings.HasPrefix(sc.Cause, "audit-pipe-eof") || sc.Cause == "malformed-audit-line" || sc.Cause == "burst-of-unauditable-records" || sc.Cause == "write-failure-on-audit-event"
	if sc.OutputMissing {
		// no worker is started before the output file exists: nobody will open the pipes
	} else if !strings.HasPrefix(sc.Cause, "sshd-path") && (!sc.NoWriter || needS) {
		ws = openHealthy(d.sshdPath)
	}
	if sc.NoWriter {
		// give the daemon time to reach its blocking opens (informational wait;
		// the verdict does not depend on it)
		time.Sleep(150 * time.Millisecond)
	}
	if !sc.OutputMissing && !strings.HasPrefix(sc.Cause, "audit-path") && (!sc.NoWriter || needA) {
		if sc.Saturated {
			ses, pid := "", 0
			if o.outPath == "" && ws != nil { // (a FIFO output has no outPath in the options either)
				// bind a session first: login line, wait for its UserLogin in the output
				io.WriteString(ws, "31337 Accepted password for load from 10.9.9.9 port 999 ssh2\n")
				if d.waitForOutput(func(b []byte) bool { return bytes.Contains(b, []byte(`"loggedAs":"load"`)) }, 60*time.Second) {
					ses, pid = "31337", 31337
				}
			}
			pm, err = startPump(d.auditPath, d, ses, pid)
			if err != nil {
				pm = nil
			}
			bound = ses != ""
		} else {
			wa = openHealthy(d.auditPath)
		}
	}
	if ws != nil {
		defer ws.Close()
	}
	if wa != nil {
		defer wa.Close()
	}
	if sc.StuckScraper {
		conn := stuckScraper(d)
		if conn == nil {
			r.Inconclusive(label + ": could not connect a scraper to :2112 (port busy or server not up)")
			return false
		}
		defer conn.Close()
		sig += ":stuck-scraper"
		label += "/stuck-scraper"
	}
	// let the workers reach their steady state (blocked reading the pipes)
	// before the cause strikes; workload, not verdict
	if !sc.Early {
		time.Sleep(200 * time.Millisecond)
	} else {
		sig += ":during-start-up"
		label += "/early"
	}
	if sc.SshdLoad {
		sig += ":sshd-login-load"
		label += "/sshd-login-load"
		sp, err := startSshdPump(d.sshdPath, d)
		if err != nil {
			r.Inconclusive(label + ": could not open the sshd pipe for the login load")
			return false
		}
		defer sp.halt()
		// let some logins through first (their UserLogin events show up in the output)
		d.waitForOutput(func(b []byte) bool { return bytes.Count(b, []byte("\n")) >= 20 }, 30*time.Second)
	}
	stalls := int64(0)
	inflight := 0
	if sc.Saturated {
		if pm == nil {
			r.Inconclusive(label + ": could not open the audit pipe for pumping")
			return false
		}
		// precondition observed, not assumed: the writer stalled repeatedly
		deadline := time.Now().Add(60 * time.Second)
		for atomic.LoadInt64(&pm.stalls) < 5 && time.Now().Before(deadline) && !d.hasExited() {
			time.Sleep(time.Millisecond)
		}
		stalls = atomic.LoadInt64(&pm.stalls)
		if bound {
			// stronger evidence where it can be had: lines written to the pipe and not
			// yet come out as events are held in the pipe and in the hand-over
			// buffer. The buffer is full when that number has stopped growing
			// although the pump keeps stalling (it then equals capacity + pipe
			// content, whatever the capacity is) - or, short cut, once it exceeds
			// the 10000 slots the buffer has today.
			var window []int
			stallsAt := atomic.LoadInt64(&pm.stalls)
			full := false
			for time.Now().Before(deadline) && !d.hasExited() {
				pumped := int(atomic.LoadInt64(&pm.lines)) // read first: the difference is a lower bound
				inflight = pumped - d.outputLineCount()
				if inflight >= 10000 {
					full = true
					break
				}
				now := atomic.LoadInt64(&pm.stalls)
				if now > stallsAt && inflight >= 1000 {
					window = append(window, inflight)
				} else {
					window = window[:0]
				}
				stallsAt = now
				if len(window) >= 12 {
					lo, hi := window[len(window)-12], window[len(window)-12]
					for _, v := range window[len(window)-12:] {
						if v < lo {
							lo = v
						}
						if v > hi {
							hi = v
						}
					}
					if hi-lo <= hi/50 { // no growth over twelve samples (~250 ms) of continuous stalling
						full = true
						break
					}
				}
				time.Sleep(20 * time.Millisecond)
			}
			if !full {
				pm.halt()
				r.Inconclusive(fmt.Sprintf("%s: %d lines in flight between pipe and output and still growing or the writer not stalling: the hand-over buffer is not full", label, inflight))
				return false
			}
		}
		if stalls < 5 {
			pm.halt()
			r.Inconclusive(fmt.Sprintf("%s: the audit pipe never filled up (stalls=%d, lines=%d): saturation not reached", label, stalls, atomic.LoadInt64(&pm.lines)))
			return false
		}
	}
	// inject the cause
	switch sc.Cause {
	case "sshd-pipe-eof":
		if ws == nil {
			r.Inconclusive(label + ": sshd pipe not opened")
			return false
		}
		ws.Close()
		ws = nil
	case "sshd-pipe-eof-mid-record":
		if ws == nil {
			r.Inconclusive(label + ": sshd pipe not opened")
			return false
		}
		io.WriteString(ws, "4243 Accepted password for mid from 10.0.0.2 po")
		ws.Close()
		ws = nil
	case "audit-pipe-eof-mid-record":
		part := vlib.AuUser("USER_ACCT", vlib.BaseTSms+5, 5, 1, "4294967295", "PAM:accounting", "success")
		part = part[:len(part)*2/3]
		if pm != nil {
			pm.inject <- part
			<-pm.done
			pm = nil
		} else if wa != nil {
			io.WriteString(wa, part)
			wa.Close()
			wa = nil
		}
	case "audit-pipe-eof":
		if pm != nil {
			pm.halt()
			pm = nil
		} else if wa != nil {
			wa.Close()
			wa = nil
		}
	case "malformed-audit-line":
		bad := "this is not an audit record\n"
		if pm != nil {
			// in-stream, at a line boundary, without interrupting the load
			pm.inject <- bad
		} else if wa != nil {
			io.WriteString(wa, bad)
		}
	case "burst-of-unauditable-records":
		// LOGIN records whose pid is not a number: parsable lines, each rejected by the correlator
		var b strings.Builder
		for k := 0; k < 40; k++ {
			b.WriteString(vlib.AuLogin(vlib.BaseTSms+700000+int64(k), uint32(700000+k), "notanumber", strconv.Itoa(880000+k)) + "\n")
		}
		if pm != nil {
			pm.inject <- b.String()
		} else if wa != nil {
			io.WriteString(wa, b.String())
		}
	case "write-failure-on-audit-event":
		if pm == nil {
			// idle: bind a session and let its LOGIN record come out, then break the output
			if ws == nil || wa == nil {
				r.Inconclusive(label + ": pipes not opened")
				return false
			}
			io.WriteString(ws, "31338 Accepted password for wf from 10.9.9.8 port 998 ssh2\n")
			io.WriteString(wa, vlib.AuLogin(vlib.BaseTSms+1, 21, "31338", "31338")+"\n")
			if !d.waitForOutput(func(b []byte) bool { return bytes.Count(b, []byte("\n")) >= 2 }, 60*time.Second) {
				r.Inconclusive(label + ": the session's first events did not come out")
				return false
			}
		}
		if d.breakOutput() {
			r.Inconclusive(label + ": the events FIFO still has a reader after the harness closed its own: the write failure cannot be arranged")
			if pm != nil {
				pm.halt()
			}
			return false
		}
		if pm == nil {
			for k := 0; k < 3; k++ {
				io.WriteString(wa, vlib.AuUser("USER_START", vlib.BaseTSms+int64(30+k), uint32(30+k), 31338, "31338", "PAM:session_open", "success")+"\n")
			}
		}
	case "write-failure-on-sshd-line":
		if ws != nil {
			io.WriteString(ws, "4242 Invalid user bob from 10.0.0.1 port 22\n")
		}
	case "SIGTERM":
		d.cmd.Process.Signal(syscall.SIGTERM)
	case "SIGINT":
		d.cmd.Process.Signal(syscall.SIGINT)
	}
	t0 := time.Now()
	pumpedAtInjection := int64(0)
	if pm != nil {
		pumpedAtInjection = atomic.LoadInt64(&pm.lines)
	}
	exited, dump := d.waitExit(30 * time.Second)
	if pm != nil {
		pm.halt()
	}
	pumped := int64(0)
	if pm != nil {
		pumped = atomic.LoadInt64(&pm.lines)
	}
	r.Add("scenarios_run", 1)
	if sc.Saturated {
		r.Add("saturated_scenarios_with_observed_stalls", 1)
	}
	row := map[string]any{"scenario": label, "exited": exited, "writer_stalls_before_injection": stalls, "lines_pumped": pumped, "lines_in_flight_before_injection": inflight}
	if !exited {
		stuck, why := classifyDaemonDump(dump)
		if more := pumped - pumpedAtInjection; !stuck && failureCause(sc.Cause) && pm != nil && more > 5000 {
			// not parked but busy: it went on taking audit lines for the whole
			// watchdog although one of its workers had failed
			atomic.AddInt32(&c08Hangs, 1)
			r.Violation(sig+":keeps-consuming-its-input-after-the-failure", fmt.Sprintf("%s: daemon did not exit and took %d more audit lines after the failure; %s", label, more, why), map[string]any{"scenario": sc, "dump": trunc(dump, 6000)})
			r.Sample(row)
			return true
		}
		if stuck {
			atomic.AddInt32(&c08Hangs, 1)
			r.Violation(sig+":daemon-keeps-running", fmt.Sprintf("%s: daemon did not exit; %s", label, why), map[string]any{"scenario": sc, "dump": trunc(dump, 6000), "output_tail": trunc(string(d.outputRaw()), 1500), "stderr": trunc(d.stderr.String(), 1500)})
		} else {
			r.Inconclusive(label + ": daemon did not exit within the watchdog but is not parked: " + why)
			if os.Getenv("VERIF_DEBUG") != "" {
				fmt.Println(dump)
			}
		}
		r.Sample(row)
		return true
	}
	st := d.exitStatus()
	row["exit_status"] = st
	row["stderr_tail"] = trunc(lastLineOf(d.stderr.String()), 200)
	row["time_to_exit_ms_informational"] = time.Since(t0).Milliseconds()
	if failureCause(sc.Cause) && st == 0 {
		r.Violation(sig+":exit-status-0-after-failure", fmt.Sprintf("%s: daemon exited with status 0 after a failure; stderr: %s", label, trunc(d.stderr.String(), 400)), wit)
	}
	if st < 0 && st != -int(syscall.SIGTERM) && st != -int(syscall.SIGINT) {
		r.Violation(sig+":killed-by-signal", fmt.Sprintf("%s: daemon died from signal %d: %s", label, -st, trunc(d.stderr.String(), 600)), wit)
	}
	if sc.Race {
		if n, sum := d.raceReports(); n > 0 {
			r.Violation(sig+":data-race", fmt.Sprintf("%d race reports: %s", n, sum), wit)
		}
	}
	r.Append("per_scenario", row)
	r.Sample(row)
	return true
}

func checkC08(r *vlib.Run) int {
	var scs []c08Scenario
	if !r.Thorough() {
		for _, c := range c08Causes {
			scs = append(scs, c08Scenario{Cause: c})
		}
		for _, c := range []string{"SIGTERM", "malformed-audit-line", "sshd-pipe-eof", "SIGINT", "audit-pipe-eof-mid-record", "write-failure-on-audit-event"} {
			scs = append(scs, c08Scenario{Cause: c, Saturated: true})
		}
		for _, c := range c08Causes {
			scs = append(scs, c08Scenario{Cause: c, NoWriter: true})
			scs = append(scs, c08Scenario{Cause: c, Debug: true})
		}
	} else {
		for rep := 0; rep < 3; rep++ {
			for _, race := range []bool{false, true} {
				for _, c := range c08Causes {
					scs = append(scs, c08Scenario{Cause: c, Race: race})
					scs = append(scs, c08Scenario{Cause: c, Race: race, NoWriter: true})
					scs = append(scs, c08Scenario{Cause: c, Race: race, Debug: true})
					scs = append(scs, c08Scenario{Cause: c, Race: race, Debug: true, NoWriter: true})
					if !strings.Contains(c, "-path-") && c != "audit-pipe-eof" {
						scs = append(scs, c08Scenario{Cause: c, Saturated: true, Race: race})
					}
				}
			}
		}
	}
	if only := os.Getenv("VERIF_C08_ONLY_IDLE"); only != "" {
		var f []c08Scenario
		for _, s := range scs {
			if s.Cause == only && !s.Saturated {
				f = append(f, s)
			}
		}
		scs = f
	}
	if only := os.Getenv("VERIF_C08_ONLY"); only != "" {
		var f []c08Scenario
		for _, s := range scs {
			if s.Cause == only && s.Saturated {
				f = append(f, s)
			}
		}
		scs = f
	}
	dist := vlib.NewDistinct()
	evals := 0
	// saturated scenarios are timing-sensitive: run them one at a time; idle ones in parallel
	for _, c := range []string{"SIGTERM", "SIGINT", "sshd-pipe-eof", "audit-pipe-eof", "malformed-audit-line", "write-failure-on-sshd-line"} {
		scs = append(scs, c08Scenario{Cause: c, HTTP: true})
	}
	for _, c := range []string{"SIGTERM", "sshd-pipe-eof", "malformed-audit-line"} {
		scs = append(scs, c08Scenario{Cause: c, HTTP: true, StuckScraper: true})
	}
	for _, c := range c08Causes {
		scs = append(scs, c08Scenario{Cause: c, AuditMetrics: true})
	}
	scs = append(scs, c08Scenario{Cause: "malformed-audit-line", HTTP: true, AuditMetrics: true}, c08Scenario{Cause: "SIGTERM", HTTP: true, AuditMetrics: true})
	for _, c := range []string{"SIGTERM", "SIGINT"} {
		scs = append(scs, c08Scenario{Cause: c, OutputMissing: true}, c08Scenario{Cause: c, OutputMissing: true, Debug: true})
	}
	for _, c := range c08Causes {
		scs = append(scs, c08Scenario{Cause: c, Early: true})
	}
	for _, c := range []string{"malformed-audit-line", "audit-pipe-eof", "burst-of-unauditable-records", "SIGTERM", "SIGINT", "audit-pipe-eof-mid-record"} {
		scs = append(scs, c08Scenario{Cause: c, SshdLoad: true})
	}
	var idle, sat []int
	for i, s := range scs {
		// one at a time: saturated scenarios (timing), the HTTP server (fixed port), and the FIFO-output
		// cause (while other daemons are being started, a child between fork and exec holds a copy of
		// every descriptor of the harness, the FIFO's reading end included)
		if s.Saturated || s.HTTP || s.Cause == "write-failure-on-audit-event" {
			sat = append(sat, i)
		} else {
			idle = append(idle, i)
		}
	}
	done := make([]bool, len(scs))
	parallelDo(len(idle), func(k int) { done[idle[k]] = c08Run(r, scs[idle[k]], idle[k]) })
	for _, i := range sat {
		done[i] = c08Run(r, scs[i], i)
	}
	for i, ok := range done {
		if ok {
			evals++
			dist.Add(fmt.Sprintf("%s|%v|%v|%v|%v|%v", scs[i].Cause, scs[i].Saturated, scs[i].NoWriter, scs[i].Debug, scs[i].HTTP, scs[i].StuckScraper) + fmt.Sprint(scs[i].AuditMetrics, scs[i].OutputMissing, scs[i].Early, scs[i].SshdLoad))
		}
	}
	r.Set("causes", c08Causes)
	r.Require(evals >= len(scs)*8/10, "fewer than 80% of the scenarios could be evaluated")
	r.Require(r.Get("saturated_scenarios_with_observed_stalls") >= 2, "saturation was not reached in at least two scenarios")
	r.Assumptions = []string{"'saturated' is observed: the pumping writer's write(2) hit EAGAIN at least five times and the number of lines in flight between pipe and output stopped growing (or passed 10000) before the fault is injected, otherwise the scenario is inconclusive",
		"'does not exit' is a violation only if the SIGQUIT dump shows main parked in errgroup.Wait and a worker parked; otherwise inconclusive",
		"signals may end the process with any status; failures must give a non-zero status"}
	return r.Finish(evals, dist.Len(), "built daemon x failure cause {sshd pipe EOF, audit pipe EOF, either pipe's EOF in the middle of a record, malformed audit line, a burst of 40 LOGIN records with a non-numeric pid, event write failure via /dev/full (on an sshd line) and via a FIFO output whose reader goes away (on an audit event of a correlated session), sshd/audit path is a regular file / missing / a directory, SIGTERM, SIGINT} x load {idle with writers attached, idle with the other pipe still waiting for its writer, saturated by a pumping writer} x log level {error, debug}, six causes with the HTTP health/metrics server enabled and three of them with a scrape client that never reads its answers, every cause with -audit-metrics (ticker member of the worker group, 20 ms), both signals while the daemon still waits for its events output file to appear, every cause right after the pipes were opened (workers still starting up), six causes while accepted password logins keep streaming in on the sshd pipe; thorough: x3 and with the -race build; distinct = (cause, load) pairs evaluated")
}

func lastLineOf(s string) string {
	s = strings.TrimSpace(s)
	if i := strings.LastIndexByte(s, '\n'); i >= 0 {
		return s[i+1:]
	}
	return s
}

// stuckScraper connects to the daemon's HTTP server, pipelines a few thousand
// /metrics requests and never reads a byte: once the socket buffers are full
// the server's handler is parked in a write.
func stuckScraper(d *daemon) net.Conn {
	var conn net.Conn
	var err error
	deadline := time.Now().Add(20 * time.Second)
	for {
		conn, err = net.DialTimeout("tcp", "127.0.0.1:2112", time.Second)
		if err == nil {
			break
		}
		if d.hasExited() || time.Now().After(deadline) {
			return nil
		}
		time.Sleep(5 * time.Millisecond)
	}
	if tc, ok := conn.(*net.TCPConn); ok {
		_ = tc.SetReadBuffer(4096) // a tiny receive window: the server's answers back up quickly
	}
	req := []byte(strings.Repeat("GET /metrics HTTP/1.1\r\nHost: localhost\r\n\r\n", 100))
	for k := 0; k < 3000; k++ { // up to 300000 requests
		_ = conn.SetWriteDeadline(time.Now().Add(1500 * time.Millisecond))
		if _, err := conn.Write(req); err != nil {
			// our own send buffer is full as well: the server has stopped reading
			// requests because its handler is parked writing an answer
			return conn
		}
	}
	return conn
}
