package main

// Child-process isolation: any engine that feeds generated or hostile input
// runs its cases in child processes, in index ranges. The child appends the
// index of each case to a progress file *before* executing it, and prints
// one JSON line per finding plus a final stats line. A panic, fatal runtime
// error (checkptr, concurrent map access), race report with halt_on_error or
// a hang therefore kills only the child; the parent turns the last logged
// index into the witness.

import (
	"bufio"
	"bytes"
	"encoding/json"
	"fmt"
	"os"
	"os/exec"
	"path/filepath"
	"strconv"
	"strings"
	"sync"
	"syscall"
	"time"

	"github.com/metal-toolbox/audito-maldito/verif/vlib"
)

type childMsg struct {
	V *childViolation `json:"v,omitempty"`
	S map[string]int  `json:"s,omitempty"`
	D []string        `json:"d,omitempty"` // distinct class keys
	X any             `json:"x,omitempty"` // sample
	I string          `json:"i,omitempty"` // inconclusive
}

type childViolation struct {
	Sig     string `json:"sig"`
	What    string `json:"what"`
	Witness any    `json:"witness"`
}

// childOut is used inside a child to talk to the parent.
type childOut struct {
	mu       sync.Mutex
	w        *bufio.Writer
	stats    map[string]int
	distinct map[string]struct{}
	progress *os.File
	nsamples int
}

func newChildOut(progressPath string) *childOut {
	f, _ := os.OpenFile(progressPath, os.O_CREATE|os.O_WRONLY|os.O_TRUNC, 0o644)
	return &childOut{w: bufio.NewWriterSize(os.Stdout, 1<<16), stats: map[string]int{}, distinct: map[string]struct{}{}, progress: f}
}

// begin logs the case index (and optional literal) before it is executed.
func (c *childOut) begin(idx int, literal string) {
	if c.progress != nil {
		fmt.Fprintf(c.progress, "%d %q\n", idx, literal)
	}
}

func (c *childOut) violation(sig, what string, witness any) {
	c.mu.Lock()
	defer c.mu.Unlock()
	b, _ := json.Marshal(childMsg{V: &childViolation{sig, what, witness}})
	c.w.Write(b)
	c.w.WriteByte('\n')
}

func (c *childOut) inconclusive(what string) {
	c.mu.Lock()
	defer c.mu.Unlock()
	b, _ := json.Marshal(childMsg{I: what})
	c.w.Write(b)
	c.w.WriteByte('\n')
}

func (c *childOut) add(k string, n int) {
	c.mu.Lock()
	c.stats[k] += n
	c.mu.Unlock()
}

func (c *childOut) class(k string) {
	c.mu.Lock()
	c.distinct[k] = struct{}{}
	c.mu.Unlock()
}

func (c *childOut) sample(x any) {
	c.mu.Lock()
	defer c.mu.Unlock()
	if c.nsamples >= 1 {
		return
	}
	c.nsamples++
	b, _ := json.Marshal(childMsg{X: x})
	c.w.Write(b)
	c.w.WriteByte('\n')
}

func (c *childOut) finish() {
	c.mu.Lock()
	defer c.mu.Unlock()
	ks := make([]string, 0, len(c.distinct))
	for k := range c.distinct {
		ks = append(ks, k)
	}
	b, _ := json.Marshal(childMsg{S: c.stats, D: ks})
	c.w.Write(b)
	c.w.WriteByte('\n')
	c.w.Flush()
	if c.progress != nil {
		c.progress.Close()
	}
}

// batchResult is the parent's aggregate over all children.
type batchResult struct {
	stats    map[string]int
	distinct *vlib.Distinct
	crashes  int
}

// runChildren splits [0,total) into ranges of `batch` cases and runs
// `mon --child <entry> <tier> <seed> <from> <to> <progress> extra...` for each,
// at most nWorkers at a time. bin selects the plain or the race build.
func runChildren(r *vlib.Run, bin, entry string, total, batch int, perChildTimeout time.Duration, extra ...string) *batchResult {
	res := &batchResult{stats: map[string]int{}, distinct: vlib.NewDistinct()}
	// quick-tier batches take seconds; four minutes is still some twenty times
	// that, and keeps a wedged batch from costing a quarter of an hour
	if !r.Thorough() && perChildTimeout > 4*time.Minute {
		perChildTimeout = 4 * time.Minute
	}
	var mu sync.Mutex
	nb := (total + batch - 1) / batch
	tmp, _ := os.MkdirTemp("", "verif-"+r.Prop+"-")
	defer os.RemoveAll(tmp)
	exe := filepath.Join(vlib.VerifDir, "build", bin)
	parallelDo(nb, func(b int) {
		from, to := b*batch, (b+1)*batch
		if to > total {
			to = total
		}
		prog := filepath.Join(tmp, fmt.Sprintf("progress.%d", b))
		args := append([]string{"--child", entry, r.Tier, strconv.FormatInt(r.Seed, 10), strconv.Itoa(from), strconv.Itoa(to), prog}, extra...)
		cmd := exec.Command(exe, args...)
		cmd.Env = append(os.Environ(), "GORACE=halt_on_error=1 exitcode=66 atexit_sleep_ms=0", "GOTRACEBACK=all")
		if b%2 == 1 {
			cmd.Env = append(cmd.Env, "VERIF_DEBUGLOG=1") // every other batch runs the code under test at debug log level
		}
		var stdout, stderr bytes.Buffer
		cmd.Stdout, cmd.Stderr = &stdout, &stderr
		if err := cmd.Start(); err != nil {
			r.Broken("cannot start child: " + err.Error())
			return
		}
		done := make(chan error, 1)
		go func() { done <- cmd.Wait() }()
		var werr error
		timedOut := false
		select {
		case werr = <-done:
		case <-time.After(perChildTimeout):
			timedOut = true
			_ = cmd.Process.Signal(syscall.SIGQUIT)
			select {
			case werr = <-done:
			case <-time.After(10 * time.Second):
				_ = cmd.Process.Kill()
				werr = <-done
			}
		}
		mu.Lock()
		defer mu.Unlock()
		sc := bufio.NewScanner(bytes.NewReader(stdout.Bytes()))
		sc.Buffer(make([]byte, 1<<20), 1<<26)
		for sc.Scan() {
			var m childMsg
			if json.Unmarshal(sc.Bytes(), &m) != nil {
				continue
			}
			switch {
			case m.V != nil:
				r.Violation(m.V.Sig, m.V.What, m.V.Witness)
			case m.I != "":
				r.Inconclusive(m.I)
			case m.X != nil:
				r.Sample(m.X)
			case m.S != nil:
				for k, v := range m.S {
					if strings.HasPrefix(k, "max:") {
						if v > res.stats[k] {
							res.stats[k] = v
						}
						continue
					}
					res.stats[k] += v
				}
				for _, k := range m.D {
					res.distinct.Add(k)
				}
			}
		}
		if werr != nil || timedOut {
			last := lastLine(prog)
			tail := stderr.String()
			if len(tail) > 6000 {
				tail = tail[:3000] + "\n...\n" + tail[len(tail)-3000:]
			}
			res.crashes++
			switch {
			case timedOut:
				// A child that had to be stopped by the watchdog: classify from its goroutine dump.
				if stuck, why := classifyDump(stderr.String()); stuck {
					r.Violation(r.Prop+":"+entry+":hang", fmt.Sprintf("child stuck (%s) at case %s", why, last), map[string]any{"entry": entry, "last_case": last, "stderr": tail})
				} else {
					r.Inconclusive(fmt.Sprintf("child for cases [%d,%d) exceeded its %s watchdog while still making progress (last case %s)", from, to, perChildTimeout, last))
				}
			case strings.Contains(stderr.String(), "WARNING: DATA RACE"):
				r.Violation(r.Prop+":"+entry+":data-race", "race detector report at case "+last+": "+raceSummary(stderr.String()), map[string]any{"entry": entry, "last_case": last, "stderr": tail})
			default:
				r.Violation(r.Prop+":"+entry+":crash", fmt.Sprintf("child died (%v) at case %s: %s", werr, last, firstLines(stderr.String(), 3)), map[string]any{"entry": entry, "last_case": last, "stderr": tail})
			}
		}
	})
	return res
}

func lastLine(path string) string {
	b, err := os.ReadFile(path)
	if err != nil {
		return "?"
	}
	lines := strings.Split(strings.TrimSpace(string(b)), "\n")
	return lines[len(lines)-1]
}

func firstLines(s string, n int) string {
	lines := strings.Split(strings.TrimSpace(s), "\n")
	if len(lines) > n {
		lines = lines[:n]
	}
	return strings.Join(lines, " / ")
}

// raceSummary extracts the two outermost user-level entry points of the first report.
func raceSummary(s string) string {
	i := strings.Index(s, "WARNING: DATA RACE")
	if i < 0 {
		return ""
	}
	blk := s[i:]
	if j := strings.Index(blk, "=================="); j > 0 {
		blk = blk[:j]
	}
	var fns []string
	for _, l := range strings.Split(blk, "\n") {
		l = strings.TrimSpace(l)
		if strings.HasPrefix(l, "github.com/metal-toolbox/audito-maldito/") && strings.Contains(l, "(") {
			fns = append(fns, strings.TrimPrefix(l[:strings.Index(l, "(")], "github.com/metal-toolbox/audito-maldito/"))
		}
	}
	if len(fns) > 6 {
		fns = fns[:6]
	}
	return strings.Join(fns, " <- ")
}

// childArgs parses the common child arguments.
func childArgs(args []string) (tier string, seed int64, from, to int, out *childOut, rest []string) {
	tier = args[0]
	seed, _ = strconv.ParseInt(args[1], 10, 64)
	from, _ = strconv.Atoi(args[2])
	to, _ = strconv.Atoi(args[3])
	out = newChildOut(args[4])
	rest = args[5:]
	return
}
