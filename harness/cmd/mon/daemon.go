package main

import (
	"bufio"
	"bytes"
	"encoding/json"
	"fmt"
	"io"
	"os"
	"os/exec"
	"path/filepath"
	"strconv"
	"strings"
	"sync"
	"sync/atomic"
	"syscall"
	"time"

	"github.com/metal-toolbox/auditevent"

	"github.com/metal-toolbox/audito-maldito/verif/vlib"
)

// daemon is one run of the built audito-maldito binary with two FIFOs and an
// output file.
type daemon struct {
	dir       string
	sshdPath  string
	auditPath string
	outPath   string
	cmd       *exec.Cmd
	stderr    *capBuffer
	done      chan struct{}
	waitErr   error
	exited    int32
	lcOff     int64 // outputLineCount: bytes of the events file counted so far
	lcLines   int   // ... and the newlines among them
	// outFifo: the events output is a named pipe read by the harness (so that it
	// can be made to fail later by closing the reading end)
	outFifo  bool
	pullOff  int64 // pullFile: bytes of the events file already copied into outData
	outFd    int
	outMu    sync.Mutex
	outData  []byte
	outStop  int32
	outEnded chan struct{}
}

type daemonOpts struct {
	race      bool
	outPath   string // "" => regular file in dir
	sshdPath  string // override (mis-configuration scenarios)
	auditPath string
	noFifos   bool
	logLevel  string   // "" => error
	extra     []string // further command-line flags
	// preexisting: what the events file already holds when the daemon starts
	// (the output of an earlier run: the daemon is restarted on the same file)
	preexisting []byte
	// outFifo: events output is a FIFO in the daemon's scratch directory, read by the harness
	outFifo bool
}

func startDaemon(o daemonOpts) (*daemon, error) {
	dir, err := os.MkdirTemp("", "verif-daemon-")
	if err != nil {
		return nil, err
	}
	d := &daemon{dir: dir, done: make(chan struct{}), stderr: &capBuffer{}}
	d.sshdPath, d.auditPath, d.outPath = o.sshdPath, o.auditPath, o.outPath
	if d.sshdPath == "" {
		d.sshdPath = mkFifo(dir, "sshd-pipe")
	}
	if d.auditPath == "" {
		d.auditPath = mkFifo(dir, "audit-pipe")
	}
	if o.outFifo {
		d.outPath = mkFifo(dir, "events-fifo")
		fd, err := syscall.Open(d.outPath, syscall.O_RDONLY|syscall.O_NONBLOCK|syscall.O_CLOEXEC, 0)
		if err != nil {
			return nil, err
		}
		d.outFifo, d.outFd, d.outEnded = true, fd, make(chan struct{})
		go func() {
			defer close(d.outEnded)
			buf := make([]byte, 1<<16)
			for atomic.LoadInt32(&d.outStop) == 0 {
				n, err := syscall.Read(fd, buf)
				if n > 0 {
					d.outMu.Lock()
					d.outData = append(d.outData, buf[:n]...)
					if len(d.outData) > 256<<20 { // keep the newer half; the line count stays right
						half := int64(len(d.outData) / 2)
						if d.lcOff < half {
							d.lcLines += bytes.Count(d.outData[d.lcOff:half], []byte("\n"))
							d.lcOff = half
						}
						d.outData = append([]byte{}, d.outData[half:]...)
						d.lcOff -= half
					}
					d.outMu.Unlock()
					continue
				}
				if err != nil && err != syscall.EAGAIN && err != syscall.EINTR {
					return
				}
				time.Sleep(200 * time.Microsecond) // no writer yet, nothing to read, or EAGAIN
			}
		}()
	} else if d.outPath == "" {
		d.outPath = filepath.Join(dir, "events.log")
		if err := os.WriteFile(d.outPath, o.preexisting, 0o644); err != nil {
			return nil, err
		}
	}
	bin := "audito-maldito"
	if o.race {
		bin = "audito-maldito-race"
	}
	binPath := filepath.Join(vlib.VerifDir, "build", bin)
	if dbg := os.Getenv("VERIF_DEBUG_DAEMON_BIN"); dbg != "" {
		binPath = dbg
	}
	lvl := o.logLevel
	if lvl == "" {
		lvl = "error"
	}
	d.cmd = exec.Command(binPath,
		append([]string{"-sshd-pipe-path", d.sshdPath, "-auditd-pipe-path", d.auditPath, "-app-events-output", d.outPath, "-log-level", lvl}, o.extra...)...)
	d.cmd.Env = append(os.Environ(), "NODE_NAME="+vNode, "GOTRACEBACK=all",
		"GORACE=halt_on_error=0 exitcode=0 atexit_sleep_ms=0 log_path="+filepath.Join(dir, "race"))
	d.cmd.Stderr = d.stderr
	d.cmd.Stdout = d.stderr
	if err := d.cmd.Start(); err != nil {
		return nil, err
	}
	go func() {
		d.waitErr = d.cmd.Wait()
		atomic.StoreInt32(&d.exited, 1)
		close(d.done)
	}()
	return d, nil
}

func (d *daemon) hasExited() bool { return atomic.LoadInt32(&d.exited) == 1 }

// exitStatus returns the exit code (or -signal) once the process is done.
func (d *daemon) exitStatus() int {
	<-d.done
	if d.cmd.ProcessState == nil {
		return -999
	}
	ws := d.cmd.ProcessState.Sys().(syscall.WaitStatus)
	if ws.Signaled() {
		return -int(ws.Signal())
	}
	return ws.ExitStatus()
}

// waitExit waits for the process; on watchdog expiry it takes a SIGQUIT dump
// and returns it for classification.
func (d *daemon) waitExit(watchdog time.Duration) (exited bool, dump string) {
	select {
	case <-d.done:
		return true, ""
	case <-time.After(watchdog):
	}
	n0 := d.stderr.Len()
	_ = d.cmd.Process.Signal(syscall.SIGQUIT)
	select {
	case <-d.done:
	case <-time.After(15 * time.Second):
		_ = d.cmd.Process.Kill()
		<-d.done
	}
	return false, d.stderr.Since(n0)
}

func (d *daemon) cleanup() {
	if !d.hasExited() {
		_ = d.cmd.Process.Kill()
		<-d.done
	}
	os.RemoveAll(d.dir)
}

func (d *daemon) raceReports() (int, string) {
	ms, _ := filepath.Glob(filepath.Join(d.dir, "race.*"))
	n := 0
	first := ""
	for _, m := range ms {
		b, _ := os.ReadFile(m)
		c := strings.Count(string(b), "WARNING: DATA RACE")
		n += c
		if c > 0 && first == "" {
			first = raceSummary(string(b))
		}
	}
	return n, first
}

// classifyDaemonDump decides whether a daemon that did not exit is stuck for
// good: main parked in errgroup.Wait while some worker is parked in a channel
// operation / lock that nothing can complete.
func classifyDaemonDump(dump string) (bool, string) {
	gs := parseDump(dump)
	if len(gs) == 0 {
		return false, "no goroutine dump obtained"
	}
	mainWaiting := false
	for _, g := range findG(gs, "errgroup.(*Group).Wait") {
		if parkedState(g.State) {
			mainWaiting = true
		}
	}
	var stuck, polling []string
	for _, g := range gs {
		if !g.has("github.com/metal-toolbox/audito-maldito/") || g.has("errgroup.(*Group).Wait") {
			continue
		}
		switch g.State {
		case "chan send", "chan receive", "semacquire", "sync.Mutex.Lock", "select", "IO wait":
			top := ""
			for _, f := range g.Frames {
				if strings.Contains(f, "github.com/metal-toolbox/audito-maldito/") {
					top = f
					break
				}
			}
			stuck = append(stuck, g.State+" in "+top)
		case "syscall":
			if blockedInFifoOpen(g) {
				stuck = append(stuck, "blocked in a FIFO open/read syscall in namedpipe Ingest")
			}
		case "sleep":
			// time.Sleep called from the daemon's own code: a polling loop that
			// has not looked at the stop request for the whole watchdog
			for _, f := range g.Frames {
				if strings.Contains(f, "github.com/metal-toolbox/audito-maldito/") {
					polling = append(polling, "sleeping in "+f)
					break
				}
			}
		case "running", "runnable":
			return false, "goroutine " + g.ID + " is " + g.State
		}
	}
	if len(polling) > 0 && !mainWaiting {
		return true, "start-up polling loop outlived the watchdog: " + strings.Join(polling, "; ")
	}
	if mainWaiting && len(stuck) > 0 {
		return true, "main parked in errgroup.Wait; " + strings.Join(stuck, "; ")
	}
	return false, fmt.Sprintf("mainWaiting=%v workers=%v", mainWaiting, stuck)
}

// outputLines reads the complete lines of the events file.
func (d *daemon) outputRaw() []byte {
	if d.outFifo {
		d.outMu.Lock()
		defer d.outMu.Unlock()
		return append([]byte{}, d.outData...)
	}
	// only a regular file has content to read back (/dev/full would yield zeros for ever)
	if st, err := os.Stat(d.outPath); err != nil || !st.Mode().IsRegular() {
		return nil
	}
	b, _ := os.ReadFile(d.outPath)
	return b
}

// breakOutput closes the reading end of the events FIFO: the daemon's next
// event write fails with EPIPE.
func (d *daemon) breakOutput() (readerLeft bool) {
	atomic.StoreInt32(&d.outStop, 1)
	<-d.outEnded
	syscall.Close(d.outFd)
	// a non-blocking open for writing succeeds only while somebody still holds a reading end
	if fd, err := syscall.Open(d.outPath, syscall.O_WRONLY|syscall.O_NONBLOCK|syscall.O_CLOEXEC, 0); err == nil {
		syscall.Close(fd)
		return true
	}
	return false
}

// outputLineCount counts the lines of the events file incrementally (only what
// was appended since the last call is read). Single caller.
func (d *daemon) outputLineCount() int {
	if d.outFifo {
		d.outMu.Lock()
		defer d.outMu.Unlock()
		d.lcLines += bytes.Count(d.outData[d.lcOff:], []byte("\n"))
		d.lcOff = int64(len(d.outData))
		return d.lcLines
	}
	if st, err := os.Stat(d.outPath); err != nil || !st.Mode().IsRegular() {
		return d.lcLines
	}
	f, err := os.Open(d.outPath)
	if err != nil {
		return d.lcLines
	}
	defer f.Close()
	if _, err := f.Seek(d.lcOff, io.SeekStart); err != nil {
		return d.lcLines
	}
	buf := make([]byte, 1<<20)
	for {
		n, err := f.Read(buf)
		d.lcOff += int64(n)
		d.lcLines += bytes.Count(buf[:n], []byte("\n"))
		if err != nil || n == 0 {
			break
		}
	}
	return d.lcLines
}

// waitForOutput polls the events file until pred holds for its content.
func (d *daemon) waitForOutput(pred func(b []byte) bool, watchdog time.Duration) bool {
	deadline := time.Now().Add(watchdog)
	check := func() bool {
		if !d.outFifo {
			d.pullFile()
		}
		d.outMu.Lock()
		defer d.outMu.Unlock()
		return pred(d.outData)
	}
	for {
		if check() {
			return true
		}
		if d.hasExited() || time.Now().After(deadline) {
			return check()
		}
		time.Sleep(3 * time.Millisecond)
	}
}

// pullFile appends what the events file has gained since the last call to
// outData (polling must not re-read a file that may have grown to hundreds of
// megabytes every few milliseconds).
func (d *daemon) pullFile() {
	if st, err := os.Stat(d.outPath); err != nil || !st.Mode().IsRegular() {
		return
	}
	f, err := os.Open(d.outPath)
	if err != nil {
		return
	}
	defer f.Close()
	d.outMu.Lock()
	defer d.outMu.Unlock()
	if _, err := f.Seek(d.pullOff, io.SeekStart); err != nil {
		return
	}
	buf := make([]byte, 1<<20)
	for {
		n, err := f.Read(buf)
		d.outData = append(d.outData, buf[:n]...)
		d.pullOff += int64(n)
		if err != nil || n == 0 {
			return
		}
	}
}

// ---------- workload ----------

type dItem struct {
	Pipe string // "s" sshd pipe, "a" audit pipe
	Data string // complete lines, newline terminated
}

type dSession struct {
	K        int
	Pid      int
	Sid      string
	User     string
	KeyID    string
	Addr     string
	Port     string
	HasLogin bool
	HasRec   bool
	EvTS     []int64 // timestamps of the events from the LOGIN record to the CRED_DISP inclusive
	PostTS   []int64 // events after the CRED_DISP
	PreTS    []int64 // events before the LOGIN record
}

type dScenario struct {
	Sessions   []*dSession
	Items      []dItem
	Window     int
	UncorrTS   map[int64]string // timestamps of events that must never be emitted
	FailLogins int              // failure sshd lines mixed in (each yields one failed UserLogin)
	LargestEv  int
	Phased     bool // all audit records first (barrier), then all sshd lines
}

func loginLine(s *dSession) string {
	return fmt.Sprintf("%d Accepted publickey for %s from %s port %s ssh2: ED25519-CERT SHA256:%s ID %s (serial %d) CA ED25519 SHA256:caFP%d\n",
		s.Pid, s.User, s.Addr, s.Port, "fp"+strconv.Itoa(s.K), s.KeyID, s.K, s.K)
}

// genDaemonScenario builds nsess sessions with unique identities, some
// without login (cron-like), some logins without session, and session-less
// noise; items are in a global order that the two writers follow within a
// window of concurrency.
func genDaemonScenario(r *vlib.Rng, nsess int, bigEvents bool, uncorrelated bool) *dScenario {
	sc := &dScenario{UncorrTS: map[int64]string{}, Window: vlib.PickOne(r, []int{0, 1, 4, 32, 100000})}
	ts := vlib.BaseTSms
	seq := uint32(1000)
	nextTS := func() int64 { ts++; return ts }
	var queues [][]dItem
	for k := 0; k < nsess; k++ {
		s := &dSession{K: k, Pid: 100000 + k, Sid: strconv.Itoa(10000 + k), User: fmt.Sprintf("user%d", k), KeyID: fmt.Sprintf("key%d@example.com", k),
			Addr: fmt.Sprintf("10.%d.%d.%d", k/60000, (k/250)%250, k%250), Port: strconv.Itoa(1024 + k%60000), HasLogin: true, HasRec: true}
		if k%3 == 2 {
			// the same person, key and address as session 0: only the sshd pid differs
			s.User, s.KeyID, s.Addr, s.Port = "user0", "key0@example.com", "10.0.0.0", "1024"
		}
		if uncorrelated && r.Chance(12) {
			s.HasLogin = false
		} else if uncorrelated && r.Chance(8) {
			s.HasRec = false
		}
		var q []dItem
		mk := func(lines ...string) dItem { return dItem{"a", strings.Join(lines, "\n") + "\n"} }
		if s.HasRec {
			if r.Chance(15) {
				t := nextTS()
				s.PreTS = append(s.PreTS, t)
				seq++
				q = append(q, mk(vlib.AuUser("CRED_ACQ", t, seq, s.Pid, s.Sid, "PAM:setcred", "success")))
			}
			t := nextTS()
			seq++
			s.EvTS = append(s.EvTS, t)
			q = append(q, mk(vlib.AuLogin(t, seq, strconv.Itoa(s.Pid), s.Sid)))
			ne := r.Intn(8)
			if k%40 == 7 {
				ne = 260 + r.Intn(100) // a busy session: in phased scenarios all of it is held before the login comes
			}
			for e := 0; e < ne; e++ {
				t := nextTS()
				seq++
				s.EvTS = append(s.EvTS, t)
				if r.Chance(50) {
					args := []string{"ls", "-l", fmt.Sprintf("/tmp/%d-%d", k, e)}
					if bigEvents && r.Chance(8) {
						n := 200 + r.Intn(3000)
						for a := 0; a < n; a++ {
							args = append(args, fmt.Sprintf("argument-number-%06d", a))
						}
					}
					ls := vlib.ExecSpec{TSms: t, Seq: seq, PID: s.Pid + 500000, Ses: s.Sid, Success: "yes", Exe: "/usr/bin/ls", Args: args, Paths: []string{"/usr/bin/ls"}, Cwd: "/root"}.Lines()
					it := mk(ls...)
					if len(it.Data) > sc.LargestEv {
						sc.LargestEv = len(it.Data)
					}
					q = append(q, it)
				} else {
					// the result is usually success, sometimes a failure, and some records carry none at all
					q = append(q, mk(vlib.AuUser(vlib.PickOne(r, []string{"USER_START", "USER_END", "CRED_ACQ", "USER_CMD"}), t, seq, s.Pid, s.Sid, "PAM:x",
						vlib.PickOne(r, []string{"success", "success", "success", "failed", ""}))))
				}
			}
			if r.Chance(75) {
				t := nextTS()
				seq++
				s.EvTS = append(s.EvTS, t)
				q = append(q, mk(vlib.AuUser("CRED_DISP", t, seq, s.Pid, s.Sid, "PAM:setcred", "success")))
				for e := r.Intn(2); e > 0; e-- {
					t := nextTS()
					seq++
					s.PostTS = append(s.PostTS, t)
					q = append(q, mk(vlib.AuUser("USER_END", t, seq, s.Pid, s.Sid, "PAM:x", "success")))
				}
			}
		}
		if s.HasLogin {
			pos := 0
			if len(q) > 0 {
				// close to the LOGIN record: just before, right at it, or a few lines later
				recPos := len(s.PreTS)
				pos = recPos + vlib.PickOne(r, []int{0, 0, 1, 1, 2, 4, 8, len(q)})
				if pos > len(q) {
					pos = len(q)
				}
			}
			q = append(q[:pos], append([]dItem{{"s", loginLine(s)}}, q[pos:]...)...)
		}
		sc.Sessions = append(sc.Sessions, s)
		queues = append(queues, q)
	}
	if uncorrelated {
		var q []dItem
		for e := 0; e < nsess; e++ {
			t := nextTS()
			seq++
			kind := vlib.PickOne(r, []string{"nosess", "unset", "unknown", "startopen"})
			sc.UncorrTS[t] = kind
			switch kind {
			case "nosess":
				q = append(q, dItem{"a", vlib.AuUser("USER_CMD", t, seq, 77, "", "x", "success") + "\n"})
			case "unset":
				q = append(q, dItem{"a", vlib.AuUser("USER_START", t, seq, 77, "4294967295", "x", "success") + "\n"})
			case "unknown":
				q = append(q, dItem{"a", vlib.AuUser("USER_END", t, seq, 78, strconv.Itoa(900000+e), "x", "success") + "\n"})
			case "startopen":
				q = append(q, dItem{"a", vlib.AuUser("USER_START", t, seq, 100000+r.Intn(nsess), strconv.Itoa(800000+e), "x", "success") + "\n"})
			}
		}
		queues = append(queues, q)
	}
	// failure lines on the sshd pipe
	var fq []dItem
	for e := 0; e < nsess/4; e++ {
		fq = append(fq, dItem{"s", fmt.Sprintf("%d Invalid user bad%d from 192.0.2.%d port %d\n", 700000+e, e, e%250, 2000+e)})
		sc.FailLogins++
	}
	queues = append(queues, fq)
	// random interleaving; audit sequence numbers must increase in file
	// order, so they are assigned here.
	for {
		var live []int
		for i, q := range queues {
			if len(q) > 0 {
				live = append(live, i)
			}
		}
		if len(live) == 0 {
			break
		}
		// keep the number of simultaneously open sessions bounded but > 1
		i := vlib.PickOne(r, live[:min(len(live), 6)])
		sc.Items = append(sc.Items, queues[i][0])
		queues[i] = queues[i][1:]
	}
	renumberSeq(sc.Items)
	return sc
}

// renumberSeq rewrites the audit sequence numbers so that they increase in
// the order the records are written (all records of one group share one).
func renumberSeq(items []dItem) {
	seq := 1000
	for i := range items {
		if items[i].Pipe != "a" {
			continue
		}
		seq++
		lines := strings.Split(strings.TrimSuffix(items[i].Data, "\n"), "\n")
		for j, l := range lines {
			a := strings.Index(l, "msg=audit(")
			b := strings.Index(l, "):")
			if a < 0 || b < 0 {
				continue
			}
			hdr := l[a:b]
			c := strings.LastIndexByte(hdr, ':')
			lines[j] = l[:a] + hdr[:c+1] + strconv.Itoa(seq) + l[b:]
		}
		items[i].Data = strings.Join(lines, "\n") + "\n"
	}
}

// playScenario writes the items to the two FIFOs from two goroutines that
// follow the global order within sc.Window items of each other. It returns
// how often both writers were active at the same time.
func playScenario(d *daemon, sc *dScenario, ws, wa *os.File) (overlaps int64) {
	// posX = index of the next item writer X will write: everything of X
	// before that index has been written.
	var posS, posA int64
	var active int32
	var wg sync.WaitGroup
	run := func(pipe string, w *os.File, mine, other *int64) {
		defer wg.Done()
		defer atomic.StoreInt64(mine, int64(len(sc.Items)))
		for i, it := range sc.Items {
			if it.Pipe != pipe {
				continue
			}
			atomic.StoreInt64(mine, int64(i))
			for atomic.LoadInt64(other) < int64(i-sc.Window) {
				if d.hasExited() {
					return
				}
				time.Sleep(20 * time.Microsecond)
			}
			if atomic.AddInt32(&active, 1) == 2 {
				atomic.AddInt64(&overlaps, 1)
			}
			_, err := io.WriteString(w, it.Data)
			atomic.AddInt32(&active, -1)
			if err != nil {
				return
			}
		}
	}
	wg.Add(2)
	go run("s", ws, &posS, &posA)
	go run("a", wa, &posA, &posS)
	wg.Wait()
	return overlaps
}

// markerBarrier proves that every earlier line on both pipes has been fully
// processed (see DESIGN.md 2.1).
func markerBarrier(d *daemon, ws, wa *os.File, watchdog time.Duration) bool {
	return markerBarrierN(d, ws, wa, watchdog, 0)
}

// markerBarrierN is the barrier with marker identity number n (several
// barriers can be used in one run).
func markerBarrierN(d *daemon, ws, wa *os.File, watchdog time.Duration, n int) bool {
	base := 999999 - 3*n
	m := &dSession{K: base, Pid: base, Sid: strconv.Itoa(base), User: "marker" + strconv.Itoa(n), KeyID: "marker@verif", Addr: "203.0.113.9", Port: "9"}
	io.WriteString(ws, loginLine(m))
	m2 := &dSession{K: base - 1, Pid: base - 1, User: "markerB" + strconv.Itoa(n), KeyID: "marker2@verif", Addr: "203.0.113.9", Port: "9"}
	m3 := &dSession{K: base - 2, Pid: base - 2, User: "markerC" + strconv.Itoa(n), KeyID: "marker3@verif", Addr: "203.0.113.9", Port: "9"}
	io.WriteString(ws, loginLine(m2))
	io.WriteString(ws, loginLine(m3))
	if !d.waitForOutput(func(b []byte) bool { return bytes.Contains(b, []byte(`"loggedAs":"markerC`+strconv.Itoa(n)+`"`)) }, watchdog) {
		return false
	}
	io.WriteString(wa, vlib.AuLogin(vlib.BaseTSms+9000000+int64(n), uint32(4000000+n), strconv.Itoa(base), strconv.Itoa(base))+"\n")
	return d.waitForOutput(func(b []byte) bool {
		return bytes.Contains(b, []byte(`"auditId":"`+strconv.Itoa(base)+`"`))
	}, watchdog)
}

// playPhased writes every audit item first, proves with a barrier that the
// daemon has processed them all, and only then writes the sshd items: every
// login then arrives at a session that is already holding events.
func playPhased(d *daemon, sc *dScenario, ws, wa *os.File) bool {
	for _, it := range sc.Items {
		if it.Pipe == "a" {
			if _, err := io.WriteString(wa, it.Data); err != nil {
				return false
			}
		}
	}
	if !markerBarrierN(d, ws, wa, 90*time.Second, 1) {
		return false
	}
	for _, it := range sc.Items {
		if it.Pipe == "s" {
			if _, err := io.WriteString(ws, it.Data); err != nil {
				return false
			}
		}
	}
	return true
}

// parsedOutput is the events file decoded line by line.
type parsedOutput struct {
	Events   []auditevent.AuditEvent
	Raw      [][]byte
	Problems []string // lines that are not exactly one complete JSON audit event
	Bytes    int
	Largest  int
}

func parseOutput(b []byte) *parsedOutput {
	p := &parsedOutput{Bytes: len(b)}
	if len(b) > 0 && b[len(b)-1] != '\n' {
		p.Problems = append(p.Problems, "file does not end with a newline: last line torn: "+trunc(string(b[bytes.LastIndexByte(b, '\n')+1:]), 120))
	}
	sc := bufio.NewScanner(bytes.NewReader(b))
	sc.Buffer(make([]byte, 1<<20), 1<<28)
	n := 0
	for sc.Scan() {
		n++
		line := sc.Bytes()
		if len(line) > p.Largest {
			p.Largest = len(line)
		}
		dec := json.NewDecoder(bytes.NewReader(line))
		var ev auditevent.AuditEvent
		if err := dec.Decode(&ev); err != nil {
			p.Problems = append(p.Problems, fmt.Sprintf("line %d is not a JSON audit event (%v): %s", n, err, trunc(string(line), 160)))
			continue
		}
		if dec.More() {
			p.Problems = append(p.Problems, fmt.Sprintf("line %d holds more than one JSON value: %s", n, trunc(string(line), 160)))
			continue
		}
		if ev.Type == "" || ev.Component == "" || ev.Outcome == "" || ev.LoggedAt.IsZero() || ev.Metadata.AuditID == "" || ev.Subjects == nil || ev.Source.Type == "" {
			p.Problems = append(p.Problems, fmt.Sprintf("line %d lacks mandatory fields: %s", n, trunc(string(line), 160)))
			continue
		}
		p.Events = append(p.Events, ev)
		cp := make([]byte, len(line))
		copy(cp, line)
		p.Raw = append(p.Raw, cp)
	}
	return p
}

// earlierRunOutput renders n UserLogin lines as an earlier run of the daemon
// would have left them in the events file.
func earlierRunOutput(n int) []byte {
	var b bytes.Buffer
	for k := 0; k < n; k++ {
		ev := identityEvent(9100+k, 3900000+k, time.Date(2022, 11, 14, 20, 0, k, 0, time.UTC))
		ev.Metadata.AuditID = fmt.Sprintf("earlier-run-%d", k)
		ev.Subjects["loggedAs"] = fmt.Sprintf("earlier-run-%d", k)
		line, _ := json.Marshal(ev)
		b.Write(line)
		b.WriteByte('\n')
	}
	return b.Bytes()
}

// capBuffer collects a child's output without letting a chatty child eat the
// harness's memory: beyond 64 MiB the oldest half is dropped (the goroutine
// dump that matters comes last).
type capBuffer struct {
	mu      sync.Mutex
	b       []byte
	dropped int
}

func (c *capBuffer) Write(p []byte) (int, error) {
	c.mu.Lock()
	defer c.mu.Unlock()
	c.b = append(c.b, p...)
	if len(c.b) > 64<<20 {
		cut := len(c.b) / 2
		c.dropped += cut
		c.b = append([]byte{}, c.b[cut:]...)
	}
	return len(p), nil
}

// Len is the number of bytes ever written.
func (c *capBuffer) Len() int {
	c.mu.Lock()
	defer c.mu.Unlock()
	return c.dropped + len(c.b)
}

func (c *capBuffer) String() string {
	c.mu.Lock()
	defer c.mu.Unlock()
	return string(c.b)
}

// Since returns what was written after the first n0 bytes (as far as it is still held).
func (c *capBuffer) Since(n0 int) string {
	c.mu.Lock()
	defer c.mu.Unlock()
	start := n0 - c.dropped
	if start < 0 {
		start = 0
	}
	if start > len(c.b) {
		start = len(c.b)
	}
	return string(c.b[start:])
}
