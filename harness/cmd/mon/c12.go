package main

import (
	"bytes"
	"context"
	"errors"
	"fmt"
	"os"
	"strconv"
	"time"

	"github.com/metal-toolbox/audito-maldito/ingesters/namedpipe"
	"github.com/metal-toolbox/audito-maldito/internal/health"
	"github.com/metal-toolbox/audito-maldito/verif/vlib"
)

func init() {
	register("C12", "exploration", checkC12)
	childEntries["c12"] = childC12
}

type c12Stream struct {
	Delim     byte
	Records   [][]byte // without delimiter
	Tail      []byte   // unterminated bytes after the last delimiter
	Mode      int      // chunking mode
	ErrAt     int      // callback error injected at this record index; -1 none
	LenClass  string
	ModeClass string
}

var c12Lens = []int{0, 1, 2, 100, 4095, 4096, 4097, 65535, 65536, 65537, 200000}

func c12Gen(seed int64, i int) c12Stream {
	r := vlib.NewRng(seed, "C12/"+strconv.Itoa(i))
	s := c12Stream{Delim: '\n', ErrAt: -1}
	if i%3 == 2 {
		s.Delim = vlib.PickOne(r, []byte{0, ';', ' ', 0xff})
	}
	nrec := r.Intn(41)
	big := 0
	lc := "small"
	for k := 0; k < nrec; k++ {
		n := r.Intn(120)
		if r.Chance(15) {
			n = vlib.PickOne(r, c12Lens)
		}
		if n > 60000 {
			big++
			if big > 2 {
				n = 4097
			}
			lc = "multi-buffer"
		} else if n >= 4095 && lc == "small" {
			lc = "buffer-boundary"
		}
		b := make([]byte, n)
		for j := range b {
			c := byte(r.Intn(256))
			if c == s.Delim {
				c++
			}
			b[j] = c
		}
		s.Records = append(s.Records, b)
	}
	if r.Chance(60) {
		n := r.Intn(50)
		if r.Chance(10) {
			n = 5000
		}
		s.Tail = make([]byte, n)
		for j := range s.Tail {
			c := byte(r.Intn(256))
			if c == s.Delim {
				c++
			}
			s.Tail[j] = c
		}
	}
	s.Mode = i % 5
	total := 0
	for _, rec := range s.Records {
		total += len(rec) + 1
	}
	if s.Mode == 1 && total > 20000 {
		s.Mode = 2 // byte-at-a-time only for small streams
	}
	s.ModeClass = []string{"whole", "byte-at-a-time", "random-cuts", "cut-after-delim", "cut-before-delim"}[s.Mode]
	s.LenClass = lc
	// callback error at every index, cycling with the case number
	if nrec > 0 && i%4 == 1 {
		s.ErrAt = (i / 4) % nrec
	}
	return s
}

var errCallback = errors.New("verif: injected callback failure")

func chunkWriteDelim(w *os.File, data []byte, delim byte, r *vlib.Rng, mode int, longPause bool) {
	paused := false
	for len(data) > 0 {
		if longPause && !paused && len(data) > 2 {
			// a writer that stalls in the middle of a record for longer than
			// any plausible internal poll interval
			cut := 1 + r.Intn(len(data)-1)
			if data[cut-1] != delim {
				if _, err := w.Write(data[:cut]); err != nil {
					return
				}
				data = data[cut:]
				paused = true
				time.Sleep(400 * time.Millisecond)
				continue
			}
		}
		n := len(data)
		switch mode {
		case 1:
			n = 1
		case 2:
			n = 1 + r.Intn(len(data))
			if r.Bool() && n > 300 {
				n = 1 + r.Intn(300)
			}
		case 3:
			if i := bytes.IndexByte(data, delim); i >= 0 {
				n = i + 1
			}
		case 4:
			if i := bytes.IndexByte(data[1:], delim); i >= 0 {
				n = i + 1
			}
		}
		if _, err := w.Write(data[:n]); err != nil {
			return // reader gone (callback error case): EPIPE
		}
		data = data[n:]
		if mode != 0 && r.Chance(3) {
			time.Sleep(time.Duration(r.Intn(2000)) * time.Microsecond)
		}
	}
}

func childC12(args []string) {
	_, seed, from, to, out, _ := childArgs(args)
	defer out.finish()
	dir, _ := os.MkdirTemp("", "verif-c12-")
	defer os.RemoveAll(dir)
	for i := from; i < to; i++ {
		s := c12Gen(seed, i)
		out.begin(i, fmt.Sprintf("records=%d mode=%s errAt=%d", len(s.Records), s.ModeClass, s.ErrAt))
		fifo := mkFifo(dir, "p"+strconv.Itoa(i))
		var stream []byte
		for _, rec := range s.Records {
			stream = append(stream, rec...)
			stream = append(stream, s.Delim)
		}
		stream = append(stream, s.Tail...)
		var got []string
		returned := false
		afterReturn := 0
		cb := func(_ context.Context, line string) error {
			if returned {
				afterReturn++
			}
			got = append(got, line)
			if s.ErrAt >= 0 && len(got)-1 == s.ErrAt {
				return errCallback
			}
			return nil
		}
		npi := namedpipe.NewNamedPipeIngester(nopLogger(), health.NewHealth())
		done := make(chan error, 1)
		go func() { done <- npi.Ingest(context.Background(), fifo, s.Delim, cb) }()
		w, err := os.OpenFile(fifo, os.O_WRONLY, 0)
		if err != nil {
			out.inconclusive("cannot open fifo: " + err.Error())
			continue
		}
		r := vlib.NewRng(seed, "C12w/"+strconv.Itoa(i))
		wdone := make(chan struct{})
		longPause := i%8 == 5
		if longPause {
			out.add("streams_with_a_400ms_pause_inside_a_record", 1)
		}
		go func() { chunkWriteDelim(w, stream, s.Delim, r, s.Mode, longPause); w.Close(); close(wdone) }()
		var ierr error
		select {
		case ierr = <-done:
		case <-wdone:
			// the writer has written everything and closed its end: end-of-stream
			// (or the injected callback error) is all that is left for Ingest
			select {
			case ierr = <-done:
			case <-time.After(30 * time.Second):
				stuck, why := classifyStacks(vlib.AllStacks(), "namedpipe.(*NamedPipeIngester).Ingest")
				if stuck {
					out.violation("C12:ingest-stuck-at-end-of-stream", fmt.Sprintf("Ingest did not return after the writer wrote %d records and closed the pipe (%s)", len(s.Records), why), map[string]any{"index": i})
				} else {
					out.inconclusive("C12: Ingest still running 30 s after the writer closed the pipe: " + why)
				}
				return // the ingester goroutine is lost; the rest of the batch would only repeat this
			}
		}
		returned = true
		<-wdone
		os.Remove(fifo)
		out.add("streams", 1)
		out.add("records", len(s.Records))
		out.add("bytes", len(stream))
		out.class(s.LenClass + "|" + s.ModeClass + "|delim=" + strconv.Itoa(int(s.Delim)))
		if s.ErrAt >= 0 {
			out.add("error_injections", 1)
			out.class("errAt=" + strconv.Itoa(s.ErrAt))
		}
		wit := map[string]any{"index": i, "records": len(s.Records), "mode": s.ModeClass, "delim": s.Delim, "err_at": s.ErrAt, "tail_len": len(s.Tail)}
		want := len(s.Records)
		if s.ErrAt >= 0 {
			want = s.ErrAt + 1
		}
		// callback arguments == terminated records, in order, modulo one trailing delimiter
		bad := ""
		for k := 0; k < len(got) && k < want; k++ {
			g := got[k]
			rec := string(s.Records[k])
			if g != rec && g != rec+string([]byte{s.Delim}) {
				bad = fmt.Sprintf("callback #%d received %d bytes, record has %d bytes (+delimiter); first bytes got %q want %q", k, len(g), len(rec), trunc(g, 40), trunc(rec, 40))
				break
			}
		}
		switch {
		case bad != "":
			out.violation("C12:content:"+s.ModeClass, bad, wit)
		case len(got) > want && s.ErrAt >= 0:
			out.violation("C12:delivery-after-callback-error", fmt.Sprintf("%d callbacks although callback #%d returned an error", len(got), s.ErrAt), wit)
		case len(got) > want:
			out.violation("C12:unterminated-tail-delivered", fmt.Sprintf("%d callbacks for %d terminated records (tail of %d bytes): last %q", len(got), want, len(s.Tail), trunc(got[len(got)-1], 40)), wit)
		case len(got) < want:
			out.violation("C12:records-lost:"+s.ModeClass, fmt.Sprintf("%d callbacks for %d terminated records", len(got), want), wit)
		}
		if s.ErrAt >= 0 {
			if ierr != errCallback {
				out.violation("C12:callback-error-not-returned-unchanged", fmt.Sprintf("Ingest returned %v (%T)", ierr, ierr), wit)
			}
		} else if ierr == nil {
			out.violation("C12:eof-returned-nil", "Ingest returned nil at end-of-stream", wit)
		}
		if afterReturn > 0 {
			out.violation("C12:callback-after-return", "callback invoked after Ingest returned", wit)
		}
		if i%97 == 0 {
			out.sample(wit)
		}
	}
}

func trunc(s string, n int) string {
	if len(s) > n {
		return s[:n]
	}
	return s
}

func checkC12(r *vlib.Run) int {
	n := r.Pick(960, 20000)
	res := runChildren(r, "mon-race", "c12", n, (n+31)/32, 15*time.Minute)
	r.Set("streams", res.stats["streams"])
	r.Set("records", res.stats["records"])
	r.Set("bytes_through_fifo", res.stats["bytes"])
	r.Set("callback_error_injections", res.stats["error_injections"])
	r.Set("streams_with_a_400ms_pause_inside_a_record", res.stats["streams_with_a_400ms_pause_inside_a_record"])
	r.Set("classes", res.distinct.Keys())
	r.Set("build", "-race")
	r.Require(res.stats["streams"] >= n*95/100, "too few streams completed")
	r.Require(res.stats["error_injections"] > n/8, "too few callback-error injections")
	r.Assumptions = []string{"the callback may receive the record with or without its one trailing delimiter (the statement fixes only 'that record's bytes'; the repository's audit ingester test relies on the delimiter being kept)"}
	return r.Finish(res.stats["streams"], res.distinct.Len(), "byte streams of 0-40 records (lengths 0,1,2,100,4095-4097,65535-65537,200000 and random; arbitrary bytes except the delimiter; delimiters \\n and four others) plus an unterminated tail, written to a real FIFO whole / byte-at-a-time / at random cuts / cut right after / right before delimiters with pauses; callback error injected at each record index in turn; distinct = length class x partition class x delimiter, and error indices")
}
