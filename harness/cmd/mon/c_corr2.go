package main

import (
	"fmt"
	"os"
	"path/filepath"
	"strings"
	"sync"
	"sync/atomic"
	"time"

	"github.com/metal-toolbox/audito-maldito/internal/common"

	"github.com/metal-toolbox/audito-maldito/verif/vlib"
)

// ---------- C09: PID reuse after a session has ended ----------

// lifecycle renders one session: rec, n events, cd, with the login inserted at
// position pos (0 = before the LOGIN record ... n+2 = after the CD).
func lifecycle(k, n, pos int) []HOp { return lifecyclePost(k, n, 0, pos) }

// lifecyclePost is lifecycle with `post` further records of the session after
// its CRED_DISP (the login position then ranges up to n+2+post).
func lifecyclePost(k, n, post, pos int) []HOp {
	q := []HOp{{Kind: opRec, K: k}}
	for e := 0; e < n; e++ {
		q = append(q, HOp{Kind: opEv, K: k, Typ: evTypeNames[(e+k)%len(evTypeNames)]})
	}
	q = append(q, HOp{Kind: opCD, K: k})
	for e := 0; e < post; e++ {
		q = append(q, HOp{Kind: opEv, K: k, Typ: "USER_END"})
	}
	out := append([]HOp{}, q[:pos]...)
	out = append(out, HOp{Kind: opLogin, K: k})
	return append(out, q[pos:]...)
}

// withoutLogin drops the login of session k from a rendered lifecycle: a
// session that reuses the PID without any SSH login (cron, console, su).
func withoutLogin(q []HOp, k int) []HOp {
	var out []HOp
	for _, o := range q {
		if (o.Kind == opLogin || o.Kind == opRelogin) && o.K == k {
			continue
		}
		out = append(out, o)
	}
	return out
}

// withRelogin delivers the login of session k a second time at the pick-th of
// the positions where the session is live and correlated (after both halves,
// not after its CRED_DISP); ok is false if there is no such position.
func withRelogin(q []HOp, k int, pick func(n int) int) (out []HOp, ok bool) {
	rec, login, cd := -1, -1, len(q)
	for i, o := range q {
		if o.K != k {
			continue
		}
		switch {
		case o.Kind == opRec && rec < 0:
			rec = i
		case o.Kind == opLogin && login < 0:
			login = i
		case o.Kind == opCD && cd == len(q):
			cd = i
		}
	}
	if rec < 0 || login < 0 {
		return q, false
	}
	from := rec
	if login > from {
		from = login
	}
	from++ // first position after both halves
	if from > cd {
		return q, false
	}
	pos := from + pick(cd-from+1)
	return insertAt(q, HOp{Kind: opRelogin, K: k}, pos), true
}

// insertAt returns xs with op inserted at every listed position (positions
// refer to the original list, several may coincide).
func insertAt(xs []HOp, op HOp, positions ...int) []HOp {
	var out []HOp
	for i := 0; i <= len(xs); i++ {
		for _, p := range positions {
			if p == i {
				out = append(out, op)
			}
		}
		if i < len(xs) {
			out = append(out, xs[i])
		}
	}
	return out
}

// safeForCutAll reports whether, after ops[:i], no planned session is
// half-delivered (C09 keeps discarding cleanups away from pending halves:
// the staleness window is C16's subject).
func safeForCutAll(ops []HOp, i int) bool {
	rec, login := map[int]bool{}, map[int]bool{}
	for _, o := range ops[:i] {
		switch o.Kind {
		case opRec:
			rec[o.K] = true
		case opLogin:
			login[o.K] = true
		}
	}
	for k := range rec {
		if !login[k] {
			return false
		}
	}
	for k := range login {
		if !rec[k] {
			return false
		}
	}
	return true
}

func reusePlan(gens int, unrelated int) Plan {
	p := Plan{}
	for g := 0; g < gens; g++ {
		p.Sid = append(p.Sid, fmt.Sprint(700+g))
		p.Pid = append(p.Pid, 31000) // same sshd PID, reused
	}
	for u := 0; u < unrelated; u++ {
		p.Sid = append(p.Sid, fmt.Sprint(800+u))
		if u%2 == 1 {
			p.Pid = append(p.Pid, 31000+65536*(u+1)) // congruent to the reused pid modulo 2^16
		} else {
			p.Pid = append(p.Pid, 32000+u)
		}
	}
	return p
}

func checkC09(r *vlib.Run) int {
	st := newCorrStats()
	var evals int64
	loginPosCovered := vlib.NewDistinct()
	var strays, gen3 int64
	run := func(plan Plan, ops []HOp, level string) {
		atomic.AddInt64(&evals, 1)
		if level == "api" {
			res := apiExec{}.run(plan, ops)
			st.account(plan, ops, res)
			if fs := checkHistory(plan, ops, res, true); len(fs) > 0 {
				reportFindings(r, st, "C09", fs, plan, ops, "api-reuse")
			}
			return
		}
		var res *histResult
		var err error
		for a := 0; a < 3; a++ {
			if res, err = (rawExec{}).run(plan, ops); err != errInconclusiveTick {
				break
			}
		}
		if err == errInconclusiveTick {
			st.mu.Lock()
			st.inconclusive++
			st.mu.Unlock()
			return
		}
		if err != nil {
			r.Violation("C09:raw:read-stopped", err.Error()+" | "+histString(ops), map[string]any{"ops": ops, "plan": plan})
			return
		}
		st.account(plan, ops, res)
		if fs := checkHistory(plan, ops, res, true); len(fs) > 0 {
			reportFindings(r, st, "C09", fs, plan, ops, "raw-reuse")
		}
	}
	jobs := reuseJobs(loginPosCovered)
	nExh := len(jobs)
	// Three generations and unrelated sessions: seeded random.
	nRand := r.Pick(20000, 1500000)
	parallelDo(len(jobs), func(i int) { run(jobs[i].plan, jobs[i].ops, "api") })
	parallelDo(nRand, func(i int) {
		rng := vlib.NewRng(r.Seed, fmt.Sprintf("C09/rand/%d", i))
		plan, ops := randReuse(rng)
		for _, o := range ops {
			if o.Kind == opLogin && o.K == 2 {
				atomic.AddInt64(&gen3, 1)
			}
		}
		if i < 2 {
			r.Sample(map[string]any{"level": "api-reuse-random", "history": histString(ops)})
		}
		run(plan, ops, "api")
	})
	// The same through Auditd.Read from raw lines (no cleanup at this level).
	nRaw := r.Pick(300, 8000)
	parallelDo(nRaw, func(i int) {
		rng := vlib.NewRng(r.Seed, fmt.Sprintf("C09/raw/%d", i))
		plan, ops := randReuse(rng)
		var o2 []HOp
		for _, o := range ops {
			if o.Kind != opClean {
				o2 = append(o2, o)
			}
		}
		run(plan, o2, "raw")
	})
	for _, j := range jobs {
		for _, o := range j.ops {
			if o.Kind == opEv && o.K == 0 && o.Typ == "USER_END" {
				strays++
			}
		}
	}
	if st.inconclusive > 0 {
		r.Inconclusive(fmt.Sprintf("%d raw-level histories overlapped a maintenance tick", st.inconclusive))
	}
	r.Sample(map[string]any{"level": "api-reuse-exhaustive", "history": histString(jobs[len(jobs)/2].ops)})
	r.Set("exhaustive_reuse_histories", nExh)
	r.Set("exhaustive", true)
	r.Set("random_reuse_histories", nRand)
	r.Set("raw_reuse_histories", nRaw)
	r.Set("positions_of_first_sessions_login_covered", loginPosCovered.Keys())
	r.Set("stray_events_of_ended_session_injected", int(strays))
	r.Set("third_generation_logins", int(gen3))
	r.Set("user_actions_checked", st.userActions)
	r.Set("operations", st.ops)
	r.Set("findings_of_other_properties_seen_not_reported_here", st.otherClass)
	r.Require(st.userActions > 10000, "fewer than 10000 UserActions observed")
	r.Require(gen3 > 0, "no third generation of PID reuse exercised")
	r.Assumptions = []string{"a later generation's records and login arrive only after the earlier session's credential-disposal record and login have both been delivered",
		"discarding cleanups are placed only where no planned session is half-delivered (staleness is C16's subject)"}
	return r.Finish(int(evals), st.shapes.Len(), "PID-reuse histories: first session of length 2-5 with its login at every position (incl. after the CRED_DISP), then the next session on the same PID with its login at every position, 0-2 stray events of the ended session at every later position, one cleanup at every position; plus seeded random histories with three generations and unrelated sessions, at the tracker API and through Auditd.Read; distinct = distinct operation-kind sequences")
}

type reuseJob struct {
	plan Plan
	ops  []HOp
}

// reuseJobs enumerates the PID-reuse histories (see checkC09's rule text).
func reuseJobs(loginPosCovered *vlib.Distinct) []reuseJob {
	// Exhaustive part: generation A (length 2..5, login at every position),
	// then generation B (login at every position), 0..2 strays of A at every
	// later position, one cleanup (none/all) at every position.
	var jobs []reuseJob
	maxA, maxB := 3, 2
	for nA := 0; nA <= maxA; nA++ {
		for postA := 0; postA <= 2; postA++ {
			for pA := 0; pA <= nA+2+postA; pA++ {
				if postA > 0 && pA < nA+2 {
					continue // records after the CRED_DISP only matter when they are still held: login after the CRED_DISP
				}
				a := lifecyclePost(0, nA, postA, pA)
				loginPosCovered.Add(fmt.Sprintf("A:%d/%d+%d", pA, nA+2, postA))
				for nB := 0; nB <= maxB; nB++ {
					for pB := 0; pB <= nB+2; pB++ {
						b := lifecycle(1, nB, pB)
						stray := HOp{Kind: opEv, K: 0, Typ: "USER_END"}
						var bvars [][]HOp
						bvars = append(bvars, b)
						for s1 := 0; s1 <= len(b); s1++ {
							bvars = append(bvars, insertAt(b, stray, s1))
							for s2 := s1; s2 <= len(b); s2++ {
								bvars = append(bvars, insertAt(b, stray, s1, s2))
							}
						}
						type pair struct{ a, b []HOp }
						var pairs []pair
						for _, bv := range bvars {
							pairs = append(pairs, pair{a, bv})
						}
						// the next holder of the PID is no SSH session at all; and/or the first
						// session's login line is delivered twice while that session is live
						if pB == 0 {
							pairs = append(pairs, pair{a, withoutLogin(b, 1)})
						}
						if ar, ok := withRelogin(a, 0, func(n int) int { return (nB + pB) % n }); ok {
							pairs = append(pairs, pair{ar, b})
							if pB == 0 {
								pairs = append(pairs, pair{ar, withoutLogin(b, 1)})
							}
						}
						for _, pr := range pairs {
							base := append(append([]HOp{}, pr.a...), pr.b...)
							jobs = append(jobs, reuseJob{reusePlan(2, 0), base})
							for c := 0; c <= len(base); c++ {
								jobs = append(jobs, reuseJob{reusePlan(2, 0), insertAt(base, HOp{Kind: opClean, Cut: cutNone}, c)})
								if safeForCutAll(base, c) {
									jobs = append(jobs, reuseJob{reusePlan(2, 0), insertAt(base, HOp{Kind: opClean, Cut: cutAll}, c)})
								}
							}
						}
					}
				}
			}
		}
	}
	return jobs
}

func randReuse(rng *vlib.Rng) (Plan, []HOp) {
	gens := 2 + rng.Intn(2)
	unrel := rng.Intn(3)
	plan := reusePlan(gens, unrel)
	var main []HOp
	for g := 0; g < gens; g++ {
		n := rng.Intn(5)
		if rng.Chance(3) {
			n = 256 + rng.Intn(200) // a busy first session: hundreds of records held before the login
			if rng.Chance(15) {
				n = 1001 + rng.Intn(300) // ... or more than a thousand
			}
		}
		post := 0
		if rng.Chance(30) {
			post = 1 + rng.Intn(2)
		}
		lc := lifecyclePost(g, n, post, rng.Intn(n+3+post))
		if rng.Chance(25) {
			if lr, ok := withRelogin(lc, g, rng.Intn); ok {
				lc = lr
			}
		}
		if rng.Chance(20) {
			// the LOGIN record once more while the session is open (after the first, before the CRED_DISP)
			first, cd := -1, -1
			for q, o := range lc {
				if o.K == g && o.Kind == opRec && first < 0 {
					first = q
				}
				if o.K == g && o.Kind == opCD && cd < 0 {
					cd = q
				}
			}
			if first >= 0 && cd > first {
				lc = insertAt(lc, HOp{Kind: opRec, K: g}, first+1+rng.Intn(cd-first))
			}
		}
		if g == gens-1 && rng.Chance(25) {
			lc = withoutLogin(lc, g) // the last holder of the PID is not an SSH session
		}
		// strays of earlier generations
		for s := rng.Intn(3); s > 0 && g > 0; s-- {
			lc = insertAt(lc, HOp{Kind: opEv, K: rng.Intn(g), Typ: vlib.PickOne(rng, evTypeNames)}, rng.Intn(len(lc)+1))
		}
		main = append(main, lc...)
	}
	for s := rng.Intn(2); s > 0; s-- {
		main = append(main, HOp{Kind: opEv, K: rng.Intn(gens), Typ: "USER_END"})
	}
	queues := [][]HOp{main}
	for u := 0; u < unrel; u++ {
		n := rng.Intn(4)
		queues = append(queues, lifecycle(gens+u, n, rng.Intn(n+3)))
	}
	var ops []HOp
	for {
		var live []int
		for i, q := range queues {
			if len(q) > 0 {
				live = append(live, i)
			}
		}
		if len(live) == 0 {
			break
		}
		i := vlib.PickOne(rng, live)
		ops = append(ops, queues[i][0])
		queues[i] = queues[i][1:]
	}
	// cleanups
	for c := rng.Intn(3); c > 0; c-- {
		pos := rng.Intn(len(ops) + 1)
		if rng.Bool() {
			ops = insertAt(ops, HOp{Kind: opClean, Cut: cutNone}, pos)
		} else if safeForCutAll(ops, pos) {
			ops = insertAt(ops, HOp{Kind: opClean, Cut: cutAll}, pos)
		}
	}
	return plan, ops
}

// ---------- C16 (API part): cleanup cut-offs between arrivals ----------

func checkC16(r *vlib.Run) int {
	st := newCorrStats()
	var evals int64
	var discarded, kept, corrKept, endedPending, repeatedWaiting int64
	items := []HOp{}
	for k := 0; k < 3; k++ {
		items = append(items, HOp{Kind: opLogin, K: k}, HOp{Kind: opRec, K: k})
	}
	plan := mkPlan(3)
	type job struct{ ops []HOp }
	var jobs []job
	// complete appends the missing halves and one event per session so that
	// "still pending" / "still correlated" is observed behaviourally.
	complete := func(ops []HOp) []HOp {
		out := append([]HOp{}, ops...)
		has := map[string]bool{}
		for _, o := range ops {
			has[fmt.Sprintf("%s%d", o.Kind, o.K)] = true
		}
		touched := map[int]bool{}
		for _, o := range ops {
			if o.Kind == opLogin || o.Kind == opRec {
				touched[o.K] = true
			}
		}
		for k := 0; k < 3; k++ {
			if !touched[k] {
				continue
			}
			if !has[fmt.Sprintf("%s%d", opRec, k)] {
				out = append(out, HOp{Kind: opRec, K: k})
			}
			if !has[fmt.Sprintf("%s%d", opLogin, k)] {
				out = append(out, HOp{Kind: opLogin, K: k})
			}
			out = append(out, HOp{Kind: opEv, K: k, Typ: "USER_CMD"})
		}
		return out
	}
	maxLen := r.Pick(5, 6)
	var rec func(cur []HOp, used int)
	rec = func(cur []HOp, used int) {
		m := len(cur)
		if m > 0 {
			// one cleanup at every gap g (after g items), cut-off after every earlier op or "none"/"now"
			for g := 1; g <= m; g++ {
				for j := -1; j < g; j++ {
					cut := j
					if j == -1 {
						cut = cutNone
					}
					ops := insertAt(cur, HOp{Kind: opClean, Cut: cut}, g)
					jobs = append(jobs, job{complete(ops)})
				}
				ops := insertAt(cur, HOp{Kind: opClean, Cut: cutAll}, g)
				jobs = append(jobs, job{complete(ops)})
			}
		}
		if m == maxLen {
			return
		}
		for i, it := range items {
			if used&(1<<i) != 0 {
				continue
			}
			// symmetry: first touch of session k+1 only after session k was touched
			if it.K > 0 {
				prev := false
				for _, c := range cur {
					if c.K == it.K-1 {
						prev = true
					}
				}
				if !prev {
					continue
				}
			}
			rec(append(append([]HOp{}, cur...), it), used|1<<i)
		}
	}
	rec(nil, 0)
	nExh := len(jobs)
	// two cleanups at random gaps with random cut-offs, longer histories
	nRand := r.Pick(20000, 1000000)
	x := apiExec{realClock: true}
	doJob := func(ops []HOp) {
		n := atomic.AddInt64(&evals, 1)
		xx := x
		xx.debugLog = n%2 == 1 // every other history with a debug-level tracker
		res := xx.run(plan, ops)
		st.account(plan, ops, res)
		fs := checkHistory(plan, ops, res, false)
		// count predicted outcomes
		for _, f := range fs {
			_ = f
		}
		if len(fs) > 0 {
			// at this level every disagreement concerns the staleness rule
			for i := range fs {
				if fs[i].Class == "C02" || fs[i].Class == "C04" {
					fs[i].Sig = fs[i].Class + "-" + fs[i].Sig
					fs[i].Class = "C16"
				}
			}
			reportFindings(r, st, "C16", fs, plan, ops, "api-cutoff")
		}
		d, k, c := predictDiscards(ops)
		atomic.AddInt64(&discarded, int64(d))
		atomic.AddInt64(&kept, int64(k))
		atomic.AddInt64(&corrKept, int64(c))
	}
	parallelDo(len(jobs), func(i int) { doJob(jobs[i].ops) })
	parallelDo(nRand, func(i int) {
		rng := vlib.NewRng(r.Seed, fmt.Sprintf("C16/rand/%d", i))
		perm := rng.Perm(len(items))
		m := 2 + rng.Intn(len(items)-1)
		var cur []HOp
		for _, p := range perm[:m] {
			cur = append(cur, items[p])
		}
		// events of already opened sessions in between
		for e := rng.Intn(4); e > 0; e-- {
			cur = insertAt(cur, HOp{Kind: opEv, K: rng.Intn(3), Typ: "USER_CMD"}, rng.Intn(len(cur)+1))
		}
		// a waiting login may be delivered a second time before its session shows
		// up: the waiting entry is then as young as the second delivery
		for k := 0; k < 3; k++ {
			li, ri := -1, -1
			for q, o := range cur {
				if o.K == k && o.Kind == opLogin && li < 0 {
					li = q
				}
				if o.K == k && o.Kind == opRec && ri < 0 {
					ri = q
				}
			}
			if li >= 0 && (ri < 0 || li < ri) && rng.Chance(30) {
				hi := len(cur)
				if ri >= 0 {
					hi = ri
				}
				cur = insertAt(cur, HOp{Kind: opLogin, K: k}, li+1+rng.Intn(hi-li))
				atomic.AddInt64(&repeatedWaiting, 1)
			}
		}
		// a pending session may already be over (its credential disposal is
		// held too) when the cleanup runs: it is kept or dropped by age alone
		for k := 0; k < 3; k++ {
			at := -1
			for q, o := range cur {
				if o.Kind == opRec && o.K == k {
					at = q
				}
			}
			if at >= 0 && rng.Chance(40) {
				cur = insertAt(cur, HOp{Kind: opCD, K: k}, at+1+rng.Intn(len(cur)-at))
				atomic.AddInt64(&endedPending, 1)
			}
		}
		for c := 1 + rng.Intn(2); c > 0; c-- {
			g := 1 + rng.Intn(len(cur))
			cut := rng.Intn(g+1) - 1
			if cut == -1 {
				cut = cutNone
			}
			if rng.Chance(25) {
				cut = cutAll
			}
			// inserting shifts later indices: recompute "after op j" cut-offs of
			// cleanups already placed behind g
			for q := range cur {
				if cur[q].Kind == opClean && cur[q].Cut >= g {
					cur[q].Cut++
				}
			}
			cur = insertAt(cur, HOp{Kind: opClean, Cut: cut}, g)
		}
		ops := complete(cur)
		if i < 2 {
			r.Sample(map[string]any{"level": "api-cutoff-random", "history": histString(ops)})
		}
		doJob(ops)
	})
	r.Sample(map[string]any{"level": "api-cutoff-exhaustive", "history": histString(jobs[len(jobs)/3].ops)})
	r.Set("exhaustive_cutoff_histories", nExh)
	r.Set("exhaustive", true)
	r.Set("exhaustive_max_arrivals", maxLen)
	r.Set("random_cutoff_histories", nRand)
	r.Set("random_histories_sessions_with_credential_disposal_placed", int(endedPending))
	r.Set("random_histories_waiting_logins_delivered_twice", int(repeatedWaiting))
	r.Set("pending_halves_predicted_discarded", int(discarded))
	r.Set("pending_halves_predicted_kept", int(kept))
	r.Set("correlated_sessions_crossing_a_cleanup", int(corrKept))
	r.Set("user_actions_checked", st.userActions)
	r.Set("findings_of_other_properties_seen_not_reported_here", st.otherClass)
	// Cleanup concurrent with the arrival of the second half: whichever of the
	// two is processed first, the outcome must be one a sequential order gives
	// - in particular a session that got its login is never discarded.
	p2 := mkPlan(2)
	cl := HOp{Kind: opClean, Cut: cutAll}
	cprogs := []cprog{
		{Name: "Q1 rec; (login || cleanup); ev", Plan: p2, Pre: []HOp{{Kind: opRec, K: 0}}, Threads: [][]HOp{{{Kind: opLogin, K: 0}}, {cl}}, Post: []HOp{{Kind: opEv, K: 0}}},
		{Name: "Q2 login; (rec || cleanup); ev", Plan: p2, Pre: []HOp{{Kind: opLogin, K: 0}}, Threads: [][]HOp{{{Kind: opRec, K: 0}}, {cl}}, Post: []HOp{{Kind: opEv, K: 0}}},
		{Name: "Q3 rec,rec'; (login || cleanup || login'); ev,ev'", Plan: p2, Pre: []HOp{{Kind: opRec, K: 0}, {Kind: opRec, K: 1}},
			Threads: [][]HOp{{{Kind: opLogin, K: 0}}, {cl}, {{Kind: opLogin, K: 1}}}, Post: []HOp{{Kind: opEv, K: 0}, {Kind: opEv, K: 1}}},
		{Name: "Q4 rec; (login || cleanup || cleanup); ev", Plan: p2, Pre: []HOp{{Kind: opRec, K: 0}}, Threads: [][]HOp{{{Kind: opLogin, K: 0}}, {cl}, {cl}}, Post: []HOp{{Kind: opEv, K: 0}}},
		// "discards every uncorrelated one older than the cut-off" while the correlator is busy with another session
		{Name: "Q5 login,login'; (noise;noise;cleanup || rec';ev'x4); rec;ev", Plan: p2, Pre: []HOp{{Kind: opLogin, K: 0}, {Kind: opLogin, K: 1}},
			Threads: [][]HOp{{{Kind: opUnknown}, {Kind: opUnknown}, cl}, {{Kind: opRec, K: 1}, {Kind: opEv, K: 1}, {Kind: opEv, K: 1}, {Kind: opEv, K: 1}, {Kind: opEv, K: 1}}},
			Post:    []HOp{{Kind: opRec, K: 0}, {Kind: opEv, K: 0}}},
		{Name: "Q6 rec; (noise;cleanup || login';rec';ev';ev'); login;ev", Plan: p2, Pre: []HOp{{Kind: opRec, K: 0}},
			Threads: [][]HOp{{{Kind: opUnknown}, cl}, {{Kind: opLogin, K: 1}, {Kind: opRec, K: 1}, {Kind: opEv, K: 1}, {Kind: opEv, K: 1}}},
			Post:    []HOp{{Kind: opLogin, K: 0}, {Kind: opEv, K: 0}}},
	}
	concSched, concFree := 0, 0
	for _, p := range cprogs {
		adm := p.admissible()
		n, _ := exploreAll(p.instance, 20000, func(s *steer, outcome string) bool {
			if s.abandoned != "" {
				r.Inconclusive("steering abandoned for " + p.Name)
				return false
			}
			if s.deadlock != "" {
				r.Violation("C16:concurrent:deadlock", p.Name+": "+s.deadlock, map[string]any{"program": p.Name, "schedule": s.grants})
				return false
			}
			if _, ok := adm[outcome]; !ok {
				r.Violation("C16:concurrent:cleanup-vs-arrival:"+strings.Fields(p.Name)[0], fmt.Sprintf("%s: schedule %v ended with {%s}; no sequential order of cleanup and arrival gives that", p.Name, s.grants, outcome), map[string]any{"program": p.Name, "schedule": s.grants})
			}
			return true
		})
		concSched += n
		// free-running, with delays at the lock sites
		common.VerifLockHook = perturbHook(r.Seed)
		bad := 0
		for k := 0; k < r.Pick(1500, 50000) && bad < 20; k++ {
			fns, outcome := p.instance()
			var wg sync.WaitGroup
			for _, f := range fns {
				wg.Add(1)
				go func(f func()) { defer wg.Done(); f() }(f)
			}
			wg.Wait()
			concFree++
			if o := outcome(); adm[o] == "" {
				if _, ok := adm[o]; !ok {
					bad++
					r.Violation("C16:concurrent-free:cleanup-vs-arrival:"+strings.Fields(p.Name)[0], fmt.Sprintf("%s ended with {%s}; no sequential order of cleanup and arrival gives that", p.Name, o), map[string]any{"program": p.Name})
				}
			}
		}
		common.VerifLockHook = nil
	}
	r.Set("concurrent_cleanup_schedules_explored", concSched)
	r.Set("concurrent_cleanup_free_runs", concFree)
	r.Require(discarded > 1000 && kept > 1000 && corrKept > 1000, "too few discard/keep predictions exercised")
	if r.Thorough() {
		c16Realtime(r)
	}
	// the scaled build exists when ./check could overlay the interval constant
	if _, err := os.Stat(filepath.Join(vlib.VerifDir, "build", "mon-scaled")); err == nil {
		rt := runChildren(r, "mon-scaled", "c16rt", 1, 1, 5*time.Minute)
		r.Set("scaled_realtime_run_sessions", rt.stats["scaled_realtime_sessions"])
		r.Require(rt.stats["scaled_realtime_sessions"] == 8 || rt.crashes > 0, "the scaled real-time run did not report its eight sessions")
	} else {
		r.Set("scaled_realtime_run_sessions", "not run: the interval constant could not be overlaid")
	}
	r.Assumptions = []string{"arrival stamps are wall-clock readings taken by the harness strictly between operations and used only as an ordering; the wall clock does not step backwards during a history",
		"the 60-120 s band of the processor-level rule is unspecified and not probed"}
	return r.Finish(int(evals), st.shapes.Len(), "all arrival orders of up to N halves (login / LOGIN record) of 3 PIDs with one cleanup pair at every gap and every cut-off taken between earlier arrivals, completed by the missing halves and one event per session to observe whether correlation still happens; plus seeded random histories with two cleanups; distinct = distinct operation-kind sequences")
}

// predictDiscards counts, for evidence, how many pending halves a history's
// cleanups were predicted to discard / keep and how many already correlated
// sessions lived through a cleanup.
func predictDiscards(ops []HOp) (disc, kept, corr int) {
	first := map[int]int{}
	second := map[int]int{}
	for i, o := range ops {
		if o.Kind == opLogin || o.Kind == opRec {
			if _, ok := first[o.K]; !ok {
				first[o.K] = i
			} else if _, ok := second[o.K]; !ok {
				second[o.K] = i
			}
		}
	}
	for i, o := range ops {
		if o.Kind != opClean {
			continue
		}
		eff := o.Cut
		if eff == cutAll {
			eff = i
		}
		for k, a1 := range first {
			a2, has2 := second[k]
			switch {
			case a1 < i && (!has2 || a2 > i):
				if eff >= a1 {
					disc++
				} else {
					kept++
				}
			case has2 && a2 < i:
				corr++
			}
		}
	}
	return
}
