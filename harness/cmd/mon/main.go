// mon is the single monitor binary behind /verif/check. Usage:
//
//	mon <property-id> <quick|thorough> [--replay file]
//
// Each property has one entry function that drives the real code under a
// generated workload, observes it, decides, writes /verif/evidence/<id>.json
// and returns the exit code (0 held, 1 violation, 2 check broken).
package main

import (
	"time"
	"runtime/pprof"
	"encoding/json"
	"fmt"
	"io"
	"os"
	"sort"

	"go.uber.org/zap"
	"go.uber.org/zap/zapcore"

	"github.com/metal-toolbox/audito-maldito/processors/auditd"
	"github.com/metal-toolbox/audito-maldito/processors/sshd"
	"github.com/metal-toolbox/audito-maldito/verif/vlib"
)

var checks = map[string]func(r *vlib.Run) int{}

var levels = map[string]string{}

func register(id, level string, fn func(r *vlib.Run) int) {
	checks[id] = fn
	levels[id] = level
}

func main() {
	if len(os.Args) >= 2 && os.Args[1] == "--child" {
		childMain(os.Args[2:])
		return
	}
	if len(os.Args) < 3 {
		ids := []string{}
		for k := range checks {
			ids = append(ids, k)
		}
		sort.Strings(ids)
		fmt.Println("usage: mon <id> <quick|thorough> [--replay file]; ids:", ids)
		os.Exit(2)
	}
	id, tier := os.Args[1], os.Args[2]
	fn, ok := checks[id]
	if !ok {
		fmt.Println("unknown property", id)
		os.Exit(2)
	}
	if tier != "quick" && tier != "thorough" {
		fmt.Println("tier must be quick or thorough")
		os.Exit(2)
	}
	nop := zap.NewNop().Sugar()
	auditd.SetLogger(nop)
	sshd.SetLogger(nop)

	replay := false
	if len(os.Args) >= 5 && os.Args[3] == "--replay" {
		// A replay file records property, tier and seed; every case list is a
		// function of (seed, tier) only, so re-running with them re-executes
		// the witness case among the others.
		b, err := os.ReadFile(os.Args[4])
		if err != nil {
			fmt.Println("cannot read replay file:", err)
			os.Exit(2)
		}
		var w struct {
			Property string `json:"property"`
			Tier     string `json:"tier"`
			Seed     int64  `json:"seed"`
		}
		if err := json.Unmarshal(b, &w); err != nil || w.Property != id {
			fmt.Println("replay file does not belong to", id)
			os.Exit(2)
		}
		tier = w.Tier
		os.Setenv("VERIF_SEED", fmt.Sprint(w.Seed))
		replay = true
	}
	r := vlib.NewRun(id, tier, levels[id])
	// VERIF_NO_EVIDENCE: runs against a deliberately altered tree (tools/trymutant.sh and friends) leave the committed evidence alone
	r.NoEvidence = replay || os.Getenv("VERIF_NO_EVIDENCE") != ""
	currentRun = r
	if hp := os.Getenv("VERIF_HEAPPROF"); hp != "" {
		go func() {
			time.Sleep(150 * time.Second)
			f, _ := os.Create(hp)
			pprof.WriteHeapProfile(f)
			f.Close()
		}()
	}
	os.Exit(fn(r))
}

// currentRun is the run of this process (nil in child processes); the stall
// monitor of parallelDo reports through it.
var currentRun *vlib.Run

// childMain is the entry for isolated child processes (hostile inputs).
var childEntries = map[string]func(args []string){}

func childMain(args []string) {
	nop := nopLogger()
	auditd.SetLogger(nop)
	sshd.SetLogger(nop)
	if len(args) == 0 {
		os.Exit(2)
	}
	fn, ok := childEntries[args[0]]
	if !ok {
		fmt.Println("unknown child entry", args[0])
		os.Exit(2)
	}
	fn(args[1:])
}

// debugLog is true in processes that run the code under test with a
// debug-level logger (writing to nowhere): log level is a configuration
// dimension, and code that only runs at debug level must not change behaviour.
var debugLog = os.Getenv("VERIF_DEBUGLOG") == "1"

func debugLogger() *zap.SugaredLogger {
	enc := zapcore.NewJSONEncoder(zap.NewProductionEncoderConfig())
	return zap.New(zapcore.NewCore(enc, zapcore.AddSync(io.Discard), zapcore.DebugLevel)).Sugar()
}

// nopLogger is the logger handed to the code under test by this process.
func nopLogger() *zap.SugaredLogger {
	if debugLog {
		return debugLogger()
	}
	return zap.NewNop().Sugar()
}
