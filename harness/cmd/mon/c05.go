package main

import (
	"context"
	"errors"
	"fmt"
	"github.com/metal-toolbox/auditevent"
	"strconv"
	"strings"
	"time"

	"github.com/metal-toolbox/audito-maldito/ingesters/syslog"
	"github.com/metal-toolbox/audito-maldito/internal/common"
	"github.com/metal-toolbox/audito-maldito/processors/sshd"
	"github.com/metal-toolbox/audito-maldito/verif/vlib"
)

func init() {
	register("C05", "fault_enumeration", checkC05)
	childEntries["c05"] = childC05
}

var acceptedForms = []string{"accepted-publickey", "accepted-cert", "accepted-password"}

var c05PIDs = []string{"1", "7", "4194304", "2147483647", "+5", "007", "25007"}

// paddedAccepted renders the "public key without certificate data but with
// trailing text" branch of the accepted-publickey handler.
func paddedAccepted(r *vlib.Rng) vlib.SshCase {
	c := vlib.GenSsh(r, "accepted-publickey", -1, -1)
	c.Msg += vlib.PickOne(r, []string{" ", " x", " ID broken", ", publickey"})
	c.Form = "accepted-publickey-padded"
	c.Method = "ssh-cert"
	return c
}

func c05Accepted(seed int64, i int) vlib.SshCase {
	r := vlib.NewRng(seed, "C05/acc/"+strconv.Itoa(i))
	switch i % 4 {
	case 0:
		return vlib.GenSsh(r, "accepted-publickey", -1, -1)
	case 1:
		return vlib.GenSsh(r, "accepted-cert", -1, -1)
	case 2:
		return vlib.GenSsh(r, "accepted-password", -1, -1)
	}
	return paddedAccepted(r)
}

func childC05(args []string) {
	tier, seed, from, to, out, rest := childArgs(args)
	defer out.finish()
	phase := rest[0]
	ctx := context.Background()
	switch phase {
	case "accepted": // buffered channel: exactly-once, order, PID, credential, pointer identity
		h := newSshHarness(8)
		for i0 := from; i0 < to; i0++ {
			i := repeatIdx(i0, from) // every seventeenth line repeats the previous one, same PID
			if i != i0 {
				out.add("lines_repeating_the_previous_line", 1)
			}
			c := c05Accepted(seed, i)
			pid := c05PIDs[(i/4)%len(c05PIDs)]
			out.begin(i0, c.Msg)
			o := h.observe(ctx, "direct", pid, c.Msg, "", false)
			out.add("accepted_lines", 1)
			out.add("branch:"+c.Form, 1)
			out.class(c.Form + "|pid=" + pid)
			wit := map[string]any{"index": i, "pid": pid, "case": c}
			sig := "C05:accepted:" + c.Form
			if o.Panic != "" || o.Err != nil {
				out.violation(sig+":panic-or-error", fmt.Sprintf("panic=%q err=%v", o.Panic, o.Err), wit)
				continue
			}
			if len(o.Calls) != 1 || o.Calls[0].Ev.Outcome != "succeeded" || o.Calls[0].Ev.Type != "UserLogin" {
				out.violation(sig+":event-count-or-kind", fmt.Sprintf("%d events for %q", len(o.Calls), c.Msg), wit)
				continue
			}
			if o.QueuedAtEncode != 0 {
				out.violation(sig+":forwarded-before-written", "a login was already in the channel when the event write started", wit)
			}
			if len(o.Logins) != 1 {
				out.violation(sig+fmt.Sprintf(":logins=%d", len(o.Logins)), fmt.Sprintf("%d logins forwarded for %q", len(o.Logins), c.Msg), wit)
				continue
			}
			l := o.Logins[0]
			wantPID, _ := strconv.Atoi(pid)
			if l.PID != wantPID {
				out.violation(sig+":pid", fmt.Sprintf("forwarded PID %d for token %q", l.PID, pid), wit)
			}
			wantCred := c.CredUserID
			if c.Form == "accepted-publickey-padded" {
				wantCred = "unknown"
			}
			if l.CredUserID != wantCred {
				out.violation(sig+":cred", fmt.Sprintf("forwarded CredUserID %q want %q", l.CredUserID, wantCred), wit)
			}
			if !sameEvent(l.Source, o.Calls[0]) {
				out.violation(sig+":identity-not-the-written-event", "forwarded Source is neither the event that was written nor a copy with the same content: "+jsonOf(l.Source)+" vs written "+string(o.Calls[0].Snap), wit)
			}
			if l.Validate() != nil {
				out.violation(sig+":invalid-login", fmt.Sprint(l.Validate()), wit)
			}
			out.add("order_checks", 1)
			if i%5000 == 0 {
				out.sample(map[string]any{"line": c.Msg, "pid": pid, "login_pid": l.PID, "cred": l.CredUserID})
			}
		}
	case "rendezvous": // unbuffered channel, receiver goroutine, logical-clock stamps
		rec := vlib.NewRec()
		logins := make(chan common.RemoteUserLogin)
		type got struct {
			l     common.RemoteUserLogin
			stamp int64
		}
		gotc := make(chan got, 1<<16) // never the bottleneck: a processor that forwards too much must not wedge the harness
		go func() {
			for l := range logins {
				gotc <- got{l, vlib.Tick()}
			}
		}()
		proc := sshd.NewSshdProcessor(ctx, logins, vNode, vMID, rec.Writer(), newMetrics())
		for i := from; i < to; i++ {
			if c05Waits >= 3 {
				out.add("cases_skipped_after_three_watchdog_expiries", 1)
				continue
			}
			c := c05Accepted(seed, i)
			pid := c05PIDs[(i/4)%len(c05PIDs)]
			out.begin(i, c.Msg)
			n0 := rec.Len()
			err := proc.ProcessSshdLogEntry(ctx, sshd.SshdLogEntry{PID: pid, Message: c.Msg})
			retStamp := vlib.Tick()
			out.add("rendezvous_lines", 1)
			wit := map[string]any{"index": i, "pid": pid, "case": c}
			calls := rec.Since(n0)
			if err != nil || len(calls) != 1 {
				out.violation("C05:rendezvous:event", fmt.Sprintf("err=%v events=%d", err, len(calls)), wit)
				for len(gotc) > 0 {
					<-gotc
				}
				continue
			}
			select {
			case g := <-gotc:
				if !(calls[0].SeqRet < g.stamp) {
					out.violation("C05:rendezvous:received-before-write-returned", fmt.Sprintf("write returned at %d, login received at %d", calls[0].SeqRet, g.stamp), wit)
				}
				if !sameEvent(g.l.Source, calls[0]) {
					out.violation("C05:rendezvous:identity-not-the-written-event", "forwarded Source differs from the written event", wit)
				}
				_ = retStamp
			case <-time.After(20 * time.Second):
				c05Waits++
				out.violation("C05:rendezvous:no-login", "no login received 20 s after the call returned", wit)
			}
			select {
			case <-gotc:
				out.violation("C05:rendezvous:second-login", "a second login was received", wit)
			default:
			}
		}
	case "never": // failure forms and unrecognised lines never forward
		h := newSshHarness(8)
		var failForms []string
		for _, f := range vlib.SshForms {
			if !strings.HasPrefix(f, "accepted") {
				failForms = append(failForms, f)
			}
		}
		for i := from; i < to; i++ {
			var pid, msg, cls string
			if i%3 == 2 {
				// failure lines whose client-chosen name embeds other complete messages
				c := c17Gen(seed, i)
				pid, msg, cls = c05PIDs[i%len(c05PIDs)], c.Msg, "adversarial-name:"+c.Form
			} else if i%2 == 0 {
				r := vlib.NewRng(seed, "C05/never/"+strconv.Itoa(i))
				c := vlib.GenSsh(r, failForms[(i/2)%len(failForms)], -1, -1)
				pid, msg, cls = c05PIDs[i%len(c05PIDs)], c.Msg, c.Form
			} else {
				hc := hostileCase(seed, i)
				if strings.HasPrefix(hc.Msg, "Accepted ") {
					continue
				}
				pid, msg, cls = "4242", hc.Msg, "unrecognised"
			}
			out.begin(i, msg)
			o := h.observe(ctx, "direct", pid, msg, "", false)
			out.add("never_lines", 1)
			out.class("never|" + cls)
			if len(o.Logins) != 0 {
				out.violation("C05:never:login-forwarded:"+cls, fmt.Sprintf("%d logins forwarded for %q", len(o.Logins), msg), map[string]any{"index": i, "pid": pid, "msg": msg})
			}
		}
	case "fault": // the event write fails: error returned, wraps the cause, nothing forwarded
		for i := from; i < to; i++ {
			r := vlib.NewRng(seed, "C05/fault/"+strconv.Itoa(i))
			var c vlib.SshCase
			if i%2 == 0 {
				c = c05Accepted(seed, i/2)
			} else {
				c = vlib.GenSsh(r, vlib.SshForms[(i/2)%len(vlib.SshForms)], -1, -1)
			}
			h := newSshHarness(8)
			h.rec.FailAt = 1
			out.begin(i, c.Msg)
			o := h.observe(ctx, "direct", "4242", c.Msg, "", false)
			out.add("fault_cases", 1)
			out.class("fault|" + c.Form)
			wit := map[string]any{"index": i, "case": c}
			if len(o.Calls) != 1 {
				out.violation("C05:fault:not-attempted:"+c.Form, fmt.Sprintf("%d write attempts", len(o.Calls)), wit)
				continue
			}
			if o.Err == nil {
				out.violation("C05:fault:error-swallowed:"+c.Form, "event write failed but nil was returned for "+c.Msg, wit)
			} else if !errors.Is(o.Err, vlib.ErrInjected) {
				out.violation("C05:fault:error-not-wrapping-cause:"+c.Form, o.Err.Error(), wit)
			}
			if len(o.Logins) != 0 {
				out.violation("C05:fault:forwarded-after-failed-write:"+c.Form, "login forwarded although the event could not be written", wit)
			}
		}
	case "slow": // the correlator becomes ready only after a dwell: the hand-off must wait for it
		dwell := 3 * time.Second
		if tier == "thorough" {
			dwell = 12 * time.Second
		}
		slowHandoff(ctx, out, "C05", seed, from, to, dwell, func(i int) bool { return i%2 == 1 })
	case "cancel": // cancellation while the hand-off is blocked on an unready correlator
		for i := from; i < to; i++ {
			if c05Waits >= 3 {
				out.add("cases_skipped_after_three_watchdog_expiries", 1)
				continue
			}
			c := c05Accepted(seed, i)
			pre := (i/4)%2 == 0 // cancel before the call / while blocked
			out.begin(i, c.Msg)
			rec := vlib.NewRec()
			entered := make(chan struct{}, 4)
			rec.Entered = entered
			logins := make(chan common.RemoteUserLogin) // nobody ever receives
			cctx, cancel := context.WithCancel(ctx)
			// the processor is built with a context that is never cancelled: only the
			// context handed to the call is (the worker's own context is what counts)
			proc := sshd.NewSshdProcessor(context.Background(), logins, vNode, vMID, rec.Writer(), newMetrics())
			done := make(chan error, 1)
			if pre {
				cancel()
			}
			go func() {
				done <- proc.ProcessSshdLogEntry(cctx, sshd.SshdLogEntry{PID: "4242", Message: c.Msg})
			}()
			wit := map[string]any{"index": i, "case": c, "cancel_before_call": pre}
			sig := "C05:cancel:" + c.Form
			if !pre {
				// establish the blocked state: event written, worker parked in select
				select {
				case <-entered:
				case err := <-done:
					out.violation(sig+":returned-without-blocking", fmt.Sprintf("returned %v although nobody receives the login", err), wit)
					cancel()
					continue
				case <-time.After(30 * time.Second):
					c05Waits++
					out.inconclusive("C05 cancel: event write not reached within 30 s")
					cancel()
					continue
				}
				if !waitParked("sshd.process", "select|chan send", 30*time.Second) {
					select {
					case err := <-done:
						out.violation(sig+":returned-without-blocking", fmt.Sprintf("returned %v although nobody receives the login", err), wit)
					default:
						out.inconclusive("C05 cancel: worker not seen parked in select")
					}
					cancel()
					continue
				}
				out.add("blocked_states_reached", 1)
				cancel()
			}
			out.add("cancel_cases", 1)
			out.class("cancel|" + c.Form + "|pre=" + strconv.FormatBool(pre))
			select {
			case err := <-done:
				// The statement does not fix the return value under cancellation;
				// only an error that claims a failed write would be wrong here.
				if err != nil && strings.Contains(err.Error(), "failed to write event") {
					out.violation(sig+":write-error-reported-without-write-failure", fmt.Sprintf("returned %v after cancellation", err), wit)
				}
			case <-time.After(12 * time.Second):
				c05Waits++
				stuck, why := classifyStacks(vlib.AllStacks(), "sshd.process")
				if stuck {
					out.violation(sig+":stuck-after-cancel", "worker still parked 12 s after cancel: "+why, wit)
				} else {
					out.inconclusive("C05 cancel: no return within 12 s but worker not parked: " + why)
				}
				continue
			}
			if rec.Len() != 1 {
				out.violation(sig+":events", fmt.Sprintf("%d events written", rec.Len()), wit)
			}
			select {
			case <-logins:
				out.violation(sig+":login-after-cancel", "a login was offered after cancellation", wit)
			default:
			}
		}
	}
}

func checkC05(r *vlib.Run) int {
	nAcc := r.Pick(8000, 200000)
	nRdv := r.Pick(2000, 40000)
	nNever := r.Pick(20000, 400000)
	nFault := r.Pick(400, 4000)
	nCancel := r.Pick(160, 2000)
	stats := map[string]int{}
	phaseWall := map[string]int{}
	defer func() { fmt.Println("  C05 phase wall-clock seconds:", phaseWall) }()
	dist := vlib.NewDistinct()
	for _, ph := range []struct {
		name string
		n    int
	}{{"accepted", nAcc}, {"rendezvous", nRdv}, {"never", nNever}, {"fault", nFault}, {"cancel", nCancel}, {"slow", 64}} {
		t0 := time.Now()
		res := runChildren(r, "mon-race", "c05", ph.n, (ph.n+31)/32, 10*time.Minute, ph.name)
		phaseWall[ph.name] = int(time.Since(t0).Seconds())
		for k, v := range res.stats {
			stats[k] += v
		}
		for _, k := range res.distinct.Keys() {
			dist.Add(k)
		}
	}
	branches := map[string]int{}
	for k, v := range stats {
		if strings.HasPrefix(k, "branch:") {
			branches[k[7:]] = v
		}
	}
	r.Set("accepted_lines_per_branch", branches)
	r.Set("order_checks", stats["order_checks"])
	r.Set("rendezvous_lines", stats["rendezvous_lines"])
	r.Set("failure_or_unrecognised_lines", stats["never_lines"])
	r.Set("write_fault_cases", stats["fault_cases"])
	r.Set("cancel_cases", stats["cancel_cases"])
	r.Set("blocked_states_reached", stats["blocked_states_reached"])
	r.Set("slow_correlator_cases", stats["slow_correlator_cases"])
	r.Set("slow_correlator_cases_through_the_syslog_ingester", stats["slow_via_syslog-ingester"])
	r.Set("slow_correlator_dwell_ms", r.Pick(3000, 12000))
	r.Set("build", "-race")
	r.Require(len(branches) == 4, "not all four accepted branches exercised")
	r.Require(stats["order_checks"] > nAcc*9/10, "too few order checks")
	r.Require(stats["blocked_states_reached"] >= nCancel/2-nCancel/20, "blocked hand-off state not reached often enough")
	r.Require(stats["fault_cases"] == nFault, "not every fault case ran")
	r.Require(stats["slow_correlator_cases"] == 64, "not every slow-correlator case ran")
	total := stats["accepted_lines"] + stats["rendezvous_lines"] + stats["never_lines"] + stats["fault_cases"] + stats["cancel_cases"] + stats["slow_correlator_cases"]
	r.Assumptions = []string{"'blocked in the hand-off' is established from state (event write recorded, worker parked in select) before cancel() is called",
		"write-before-forward is observed by a buffered harness channel that must be empty whenever an event write starts, and by logical-clock stamps on an unbuffered channel"}
	return r.Finish(total, dist.Len(), "accepted public-key / certificate / password / padded lines x PID tokens {1,7,2^22,2^31-1,+5,007,25007}; all failure forms and non-'Accepted' hostile lines for 'never forwards'; event-write failure on every form; cancellation before the call and while blocked in the hand-off for every accepted branch; under -race; distinct = (phase, form, PID token/cancel mode) combinations")
}

// slowHandoff runs accepted-login lines against a correlator that becomes
// ready only after a dwell. Half of the lines go through the syslog
// ingester's callback, which is how the daemon hands lines to the processor.
// c05Waits counts cases of this child process that ran into a watchdog; after
// three the rest of the phase is skipped - each costs the whole watchdog and
// the verdicts so far already decide the run.
var c05Waits int

func slowHandoff(ctx context.Context, out *childOut, prefix string, seed int64, from, to int, dwell time.Duration, framed func(int) bool) {
	type slowCase struct {
		c      vlib.SshCase
		rec    *vlib.Rec
		logins chan common.RemoteUserLogin
		done   chan error
		via    string
	}
	var cases []*slowCase
	for i := from; i < to; i++ {
		sc := &slowCase{c: c05Accepted(seed, i), rec: vlib.NewRec(), logins: make(chan common.RemoteUserLogin), done: make(chan error, 1)}
		sc.rec.Entered = make(chan struct{}, 4)
		out.begin(i, sc.c.Msg)
		proc := sshd.NewSshdProcessor(ctx, sc.logins, vNode, vMID, sc.rec.Writer(), newMetrics())
		if framed(i) {
			sc.via = "syslog-ingester"
			ing := &syslog.SyslogIngester{SshdProcessor: proc}
			go func() { sc.done <- ing.Process(ctx, "4242 "+sc.c.Msg+"\n") }()
		} else {
			sc.via = "direct"
			go func() { sc.done <- proc.ProcessSshdLogEntry(ctx, sshd.SshdLogEntry{PID: "4242", Message: sc.c.Msg}) }()
		}
		cases = append(cases, sc)
	}
	for _, sc := range cases {
		select {
		case <-sc.rec.Entered:
		case <-time.After(30 * time.Second):
		}
	}
	time.Sleep(dwell) // workload, not verdict: nobody is ready to receive for this long
	// The cases run side by side, so each stage has one watchdog for the whole
	// batch, not one per case: first every pending hand-off is received, then
	// every call must have returned.
	type pend struct {
		sc  *slowCase
		wit map[string]any
	}
	var delivered []pend
	deadline := time.Now().Add(30 * time.Second)
	for _, sc := range cases {
		out.add("slow_correlator_cases", 1)
		out.class("slow|" + sc.via + "|" + sc.c.Form)
		out.add("slow_via_"+sc.via, 1)
		wit := map[string]any{"case": sc.c, "dwell_ms": dwell.Milliseconds(), "via": sc.via}
		select {
		case err := <-sc.done:
			out.violation(prefix+":slow:gave-up-without-cancellation:"+sc.via+":"+sc.c.Form, fmt.Sprintf("returned %v before the correlator was ready although the context is not cancelled; the login was never forwarded", err), wit)
			continue
		default:
		}
		select {
		case l := <-sc.logins:
			calls := sc.rec.Calls()
			if len(calls) != 1 || !sameEvent(l.Source, calls[0]) || l.PID != 4242 {
				out.violation(prefix+":slow:wrong-login:"+sc.via+":"+sc.c.Form, fmt.Sprintf("login pid=%d events=%d", l.PID, len(calls)), wit)
			}
			delivered = append(delivered, pend{sc, wit})
		case <-time.After(time.Until(deadline)):
			out.violation(prefix+":slow:no-login-offered:"+sc.via+":"+sc.c.Form, "the blocked hand-off did not deliver when the correlator became ready", wit)
		}
	}
	deadline = time.Now().Add(30 * time.Second)
	for _, p := range delivered {
		select {
		case err := <-p.sc.done:
			if err != nil {
				out.violation(prefix+":slow:error-after-delivery:"+p.sc.via+":"+p.sc.c.Form, err.Error(), p.wit)
			}
		case <-time.After(time.Until(deadline)):
			out.violation(prefix+":slow:no-return-after-delivery:"+p.sc.via+":"+p.sc.c.Form, "call did not return after the login was received", p.wit)
		}
	}
}

// sameEvent: the forwarded identity is the event that was written - the very
// pointer, or a copy whose content (uuid and timestamp included) equals what
// the writer was given.
func sameEvent(src *auditevent.AuditEvent, c vlib.Call) bool {
	if src == nil {
		return false
	}
	return src == c.Ptr || jsonOf(src) == string(c.Snap)
}
