package main

// Correlator engine: drives sessiontracker (API level) and Auditd.Read (raw
// line level) with histories of logins / audit events / cleanup calls and
// decides C01, C02, C04, C09 and the API part of C16 from the recorded
// EventEncoder calls. The oracle is a set of trace properties over what the
// harness itself delivered (it knows, by construction, which login belongs to
// which planned session); it is not a model of the tracker.

import (
	"context"
	"encoding/json"
	"fmt"
	"reflect"
	"strconv"
	"strings"
	"time"

	"github.com/elastic/go-libaudit/v2/auparse"
	"github.com/metal-toolbox/auditevent"
	"go.uber.org/zap"

	"github.com/metal-toolbox/audito-maldito/internal/common"
	"github.com/metal-toolbox/audito-maldito/internal/health"
	"github.com/metal-toolbox/audito-maldito/processors/auditd"
	"github.com/metal-toolbox/audito-maldito/processors/auditd/sessiontracker"
	"github.com/metal-toolbox/audito-maldito/verif/vlib"
)

// Op kinds.
const (
	opLogin     = "login"     // SSH login of planned session K
	opRelogin   = "relogin"   // the same login delivered once more while session K is live and correlated (no effect expected)
	opRec       = "rec"       // kernel LOGIN record of session K
	opEv        = "ev"        // ordinary event of session K
	opCD        = "cd"        // credential-disposal record of session K
	opClean     = "clean"     // cleanup pair with cut-off Cut
	opNoSess    = "nosess"    // event without session id
	opUnset     = "unset"     // event with the kernel's unset session
	opUnknown   = "unknown"   // event of a session whose LOGIN record is never sent
	opStartOpen = "startopen" // a non-LOGIN record as the first record of a session
	opExec      = "exec"      // compound execve event of session K (raw level: 4-6 lines)
)

const (
	cutNone = -1 // cut-off older than every arrival: discards nothing
	cutAll  = -2 // cut-off newer than every arrival so far: discards all pending
)

// HOp is one operation of a history.
type HOp struct {
	Kind string `json:"k"`
	K    int    `json:"s,omitempty"`   // planned session index
	Cut  int    `json:"cut,omitempty"` // clean: cutNone, cutAll or "after op j"
	Typ  string `json:"t,omitempty"`   // record type for ev
}

func (o HOp) String() string {
	switch o.Kind {
	case opClean:
		switch o.Cut {
		case cutNone:
			return "clean(none)"
		case cutAll:
			return "clean(all)"
		}
		return fmt.Sprintf("clean(after#%d)", o.Cut)
	case opNoSess, opUnset:
		return o.Kind
	case opEv:
		return fmt.Sprintf("ev%d:%s", o.K, o.Typ)
	}
	return fmt.Sprintf("%s%d", o.Kind, o.K)
}

// Plan says, for every planned session, its session id and sshd PID.
// Sessions sharing a PID are generations of PID reuse (C09).
type Plan struct {
	Sid []string
	Pid []int
}

func histString(ops []HOp) string {
	s := make([]string, len(ops))
	for i, o := range ops {
		s[i] = o.String()
	}
	return strings.Join(s, " ")
}

// identity of planned session k: unique subjects, source and target.
// tsIdx maps an operation index to the millisecond offset of its record's
// timestamp and back (it is its own inverse): adjacent operations carry
// swapped timestamps, so record time regularly runs backwards with respect to
// processing order (late records, clock steps) - order means processing order.
func tsIdx(i int) int { return i ^ 1 }

// resultOf: the audit result of operation i - every third record reports a
// failure (a failed credential disposal ends a session like any other).
func resultOf(i int) string {
	if i%3 == 2 {
		return "fail"
	}
	return "success"
}

// oldSesOf: what the LOGIN record of session k names as the audit session its
// process lived in before - usually none (the kernel's unset value), in every
// other history position another planned session (a login shell from which a
// new session was started: su -l, sudo -i). It says nothing about whose SSH
// login the new session belongs to.
func oldSesOf(plan Plan, k, i int) string {
	if i%2 == 1 && len(plan.Sid) > 1 {
		return plan.Sid[(k+1)%len(plan.Sid)]
	}
	return "4294967295"
}

// userIdx: one session in three logs in as the same account, from the same
// address, to the same host as session 0 - as happens when one person opens
// several connections; those identities differ only in the sshd pid.
func userIdx(k, pid int) int {
	if pid%3 == 0 && k < 9000 {
		return 0
	}
	return k
}

func identityEvent(k int, pid int, loggedAt time.Time) *auditevent.AuditEvent {
	k = userIdx(k, pid)
	e := auditevent.NewAuditEvent(
		common.ActionLoginIdentifier,
		auditevent.EventSource{Type: "IP", Value: fmt.Sprintf("10.%d.%d.7", k/250, k%250), Extra: map[string]any{"port": strconv.Itoa(40000 + k)}},
		auditevent.OutcomeSucceeded,
		map[string]string{"loggedAs": fmt.Sprintf("user%d", k), "userID": fmt.Sprintf("cred%d@example.com", k), "pid": strconv.Itoa(pid)},
		"sshd",
	).WithTarget(map[string]string{"host": fmt.Sprintf("node%d", k), "machine-id": fmt.Sprintf("mid%d", k)})
	e.LoggedAt = loggedAt
	return e
}

type identKey struct{ subj, src, tgt string }

func identOf(e *auditevent.AuditEvent) identKey {
	a, _ := json.Marshal(e.Subjects)
	b, _ := json.Marshal(e.Source)
	c, _ := json.Marshal(e.Target)
	return identKey{string(a), string(b), string(c)}
}

var evTypes = map[string]auparse.AuditMessageType{
	"USER_START": auparse.AUDIT_USER_START,
	"USER_END":   auparse.AUDIT_USER_END,
	"USER_CMD":   auparse.AUDIT_USER_CMD,
	"CRED_ACQ":   auparse.AUDIT_CRED_ACQ,
	"CRED_REFR":  auparse.AUDIT_CRED_REFR,
	"USER_LOGIN": auparse.AUDIT_USER_LOGIN,
	"USER_ACCT":  auparse.AUDIT_USER_ACCT,
	"SYSCALL":    auparse.AUDIT_SYSCALL,
	"CRED_DISP":  auparse.AUDIT_CRED_DISP,
	"LOGIN":      auparse.AUDIT_LOGIN,
	// further record types a session produces; none of them opens or ends one
	"USER_LOGOUT":      auparse.AUDIT_USER_LOGOUT,
	"USER_AUTH":        auparse.AUDIT_USER_AUTH,
	"USER_ERR":         auparse.AUDIT_USER_ERR,
	"USER_CHAUTHTOK":   auparse.AUDIT_USER_CHAUTHTOK,
	"USER_ROLE_CHANGE": auparse.AUDIT_USER_ROLE_CHANGE,
	"USER_MGMT":        auparse.AUDIT_USER_MGMT,
	"SERVICE_START":    auparse.AUDIT_SERVICE_START,
	"SERVICE_STOP":     auparse.AUDIT_SERVICE_STOP,
	"AVC":              auparse.AUDIT_AVC,
	"SECCOMP":          auparse.AUDIT_SECCOMP,
	"ANOM_ABEND":       auparse.AUDIT_ANOM_ABEND,
	"TTY":              auparse.AUDIT_TTY,
	"USER_TTY":         auparse.AUDIT_USER_TTY,
	"EXECVE":           auparse.AUDIT_EXECVE,
}

// rawUserTypes: record types the raw-level renderer (a user-space record with
// a msg='...' body) can express; the others are delivered as USER_CMD there.
var rawUserTypes = map[string]bool{"USER_START": true, "USER_END": true, "USER_CMD": true, "CRED_ACQ": true, "CRED_REFR": true, "USER_LOGIN": true,
	"USER_ACCT": true, "USER_LOGOUT": true, "USER_AUTH": true, "USER_ERR": true, "USER_CHAUTHTOK": true, "USER_ROLE_CHANGE": true, "USER_MGMT": true,
	"SERVICE_START": true, "SERVICE_STOP": true}

var evTypeNames = []string{"USER_START", "USER_END", "USER_CMD", "CRED_ACQ", "CRED_REFR", "USER_LOGIN", "USER_ACCT", "SYSCALL",
	"USER_LOGOUT", "USER_AUTH", "USER_ERR", "USER_CHAUTHTOK", "USER_ROLE_CHANGE", "USER_MGMT", "SERVICE_START", "SERVICE_STOP",
	"AVC", "SECCOMP", "ANOM_ABEND", "TTY", "USER_TTY", "EXECVE"}

// finding is one oracle verdict, attributed to a property class.
type finding struct {
	Class string // C01 C02 C04 C09 C16
	Sig   string
	What  string
}

// histResult is what executing a history produced, oracle-ready.
type histResult struct {
	emitted [][]vlib.Call // per op index: Encode calls observed during that op
	err     []error
	stats   map[string]int
}

// sessStat tracks the oracle's knowledge of planned session k.
type sessStat struct {
	recAt, loginAt int   // op index or -1
	evs            []int // op indices of events of k delivered at/after rec (incl. rec)
	cdAt           int   // op index of first CD at/after rec, or -1
	discarded      bool
	gen            int // generation (PID reuse): 0 first user of the PID
	reported       bool
}

// checkHistory evaluates the trace properties on an executed history.
// strictOrder: events must be emitted in delivery order (API level; and raw
// level when the run stayed clear of a reassembler maintenance tick).
func checkHistory(plan Plan, ops []HOp, res *histResult, reuse bool) []finding {
	var out []finding
	n := len(plan.Sid)
	ss := make([]sessStat, n)
	for k := range ss {
		ss[k] = sessStat{recAt: -1, loginAt: -1, cdAt: -1}
		for j := 0; j < k; j++ {
			if plan.Pid[j] == plan.Pid[k] {
				ss[k].gen++
			}
		}
	}
	sidToK := map[string]int{}
	for k, s := range plan.Sid {
		sidToK[s] = k
	}
	type cleanAt struct{ at, cut int }
	var cleans []cleanAt
	observed := make([][]int, n) // per session: op indices of emitted events in emission order
	add := func(class, sig, what string) {
		out = append(out, finding{class, sig, what})
	}
	rclass := func(k int, def string) string {
		// In PID-reuse histories every mis-binding is C09's subject.
		if reuse {
			return "C09"
		}
		return def
	}
	isDiscarded := func(k int) bool {
		s := &ss[k]
		if s.recAt < 0 || s.loginAt < 0 {
			return false
		}
		a1, a2 := s.recAt, s.loginAt
		if a1 > a2 {
			a1, a2 = a2, a1
		}
		for _, c := range cleans {
			if c.at > a1 && c.at < a2 {
				eff := c.cut
				if eff == cutAll {
					eff = c.at
				}
				if eff >= a1 { // cut-off taken after the first half arrived
					return true
				}
			}
		}
		return false
	}
	for i, op := range ops {
		// 1. account the delivery
		switch op.Kind {
		case opLogin:
			// A login delivered again while it is still waiting for its session
			// replaces the waiting one (and is as young as its own arrival); once
			// the session is there, the first login after it is the one that counts.
			if ss[op.K].loginAt < 0 || ss[op.K].recAt < 0 {
				ss[op.K].loginAt = i
			}
		case opRec:
			if ss[op.K].recAt < 0 {
				ss[op.K].recAt = i
				ss[op.K].evs = append(ss[op.K].evs, i)
			} else {
				// a LOGIN record repeated for a session that is already open is one
				// more event of that session
				ss[op.K].evs = append(ss[op.K].evs, i)
			}
		case opEv, opCD, opExec:
			s := &ss[op.K]
			if s.recAt >= 0 {
				s.evs = append(s.evs, i)
				if op.Kind == opCD && s.cdAt < 0 {
					s.cdAt = i
				}
			}
		case opClean:
			cleans = append(cleans, cleanAt{i, op.Cut})
		}
		// 2. everything emitted during this op
		for _, c := range res.emitted[i] {
			ev := c.Ev
			if ev.Type != common.ActionUserAction {
				add("C04", "non-useraction-from-tracker", fmt.Sprintf("op#%d %s emitted a %q event", i, op, ev.Type))
				continue
			}
			src := tsIdx(int(ev.LoggedAt.UnixMilli() - vlib.BaseTSms))
			if src < 0 || src >= len(ops) || src > i {
				add("C04", "fabricated-event", fmt.Sprintf("op#%d %s emitted an event with unknown timestamp %v", i, op, ev.LoggedAt))
				continue
			}
			sop := ops[src]
			switch sop.Kind {
			case opNoSess, opUnset, opUnknown, opStartOpen:
				add("C04", "uncorrelated-emitted:"+sop.Kind, fmt.Sprintf("event of op#%d (%s) was emitted (auditId=%q) during op#%d", src, sop, ev.Metadata.AuditID, i))
				continue
			case opRec, opEv, opCD, opExec:
			default:
				add("C04", "fabricated-event", fmt.Sprintf("emitted event maps to op#%d %s", src, sop))
				continue
			}
			k := sop.K
			if ev.Metadata.AuditID != plan.Sid[k] {
				add(rclass(k, "C01"), "auditid-mismatch", fmt.Sprintf("event of op#%d (%s, session %s) emitted with auditId=%q", src, sop, plan.Sid[k], ev.Metadata.AuditID))
			}
			s := &ss[k]
			if s.recAt < 0 || s.loginAt < 0 || s.recAt > i || s.loginAt > i {
				add(rclass(k, "C04"), "emitted-before-both-halves", fmt.Sprintf("event of op#%d (%s) emitted during op#%d although session %d has rec@%d login@%d", src, sop, i, k, s.recAt, s.loginAt))
				if reuse && s.loginAt < 0 {
					// no SSH login of this session has been delivered at all (the PID's
					// earlier holder had one): C04's first clause, whatever C09 says
					add("C04", "login-less-session-emitted", fmt.Sprintf("event of op#%d (%s) emitted during op#%d although no SSH login for session %d (pid %d) was ever delivered", src, sop, i, k, plan.Pid[k]))
				}
			} else if src < s.recAt {
				add(rclass(k, "C04"), "emitted-pre-login-record-event", fmt.Sprintf("event of op#%d (%s) precedes the LOGIN record of its session but was emitted", src, sop))
			}
			// identity
			want := identOf(identityEvent(k, plan.Pid[k], time.Time{}))
			got := identOf(&ev)
			if got != want {
				who := "nobody's"
				for j := 0; j < n; j++ {
					if identOf(identityEvent(j, plan.Pid[j], time.Time{})) == got {
						who = fmt.Sprintf("session %d's login", j)
					}
				}
				cls := rclass(k, "C01")
				what := fmt.Sprintf("event of op#%d (%s, session %d) carries %s identity: %s", src, sop, k, who, got.subj)
				if s.cdAt >= 0 && src > s.cdAt {
					// post-end event with a foreign identity: C04's last clause
					// (and, when it comes about through PID reuse, C09's too)
					cls = "C04"
					if reuse {
						add("C09", "foreign-identity", what)
					}
					add(cls, "post-end-foreign-identity", what)
				} else {
					add(cls, "foreign-identity", what)
				}
			}
			observed[k] = append(observed[k], src)
		}
		// 3. per-prefix exactly-once/in-order for correlated sessions
		for k := 0; k < n; k++ {
			s := &ss[k]
			if s.recAt < 0 || s.loginAt < 0 || s.reported {
				continue // nothing expected yet (emissions were reported as C04 above)
			}
			// filter post-CD events from both lists
			upto := func(xs []int) []int {
				if s.cdAt < 0 {
					return xs
				}
				var ys []int
				for _, x := range xs {
					if x <= s.cdAt {
						ys = append(ys, x)
					}
				}
				return ys
			}
			if isDiscarded(k) {
				if len(observed[k]) > 0 {
					add("C16", "discarded-half-correlated", fmt.Sprintf("after op#%d: session %d was emitted (%v) although its first half was discarded by a cleanup between rec@%d and login@%d", i, k, observed[k], s.recAt, s.loginAt))
					s.reported = true
				}
				continue
			}
			exp, obs := upto(s.evs), upto(observed[k])
			if !reflect.DeepEqual(exp, obs) && !(len(exp) == 0 && len(obs) == 0) {
				sig := "lost"
				switch {
				case len(obs) > len(exp):
					sig = "duplicated"
				case len(obs) == len(exp):
					sig = "reordered"
				}
				if len(obs) == 0 {
					sig = "nothing-emitted"
				}
				cls := rclass(k, "C02")
				add(cls, sig, fmt.Sprintf("after op#%d (%s): session %d (rec@%d login@%d) expected emitted ops %v, observed %v", i, op, k, s.recAt, s.loginAt, exp, obs))
				s.reported = true
			}
		}
		if res.err[i] != nil {
			add("C02", "unexpected-error", fmt.Sprintf("op#%d %s returned error %v", i, op, res.err[i]))
		}
	}
	return out
}

// ---------- API-level executor ----------

var procStart = time.Now().UTC()

type apiExec struct {
	debugLog  bool // run the tracker with a debug-level logger
	realClock bool // C16: cut-offs are real clock readings between operations
}

func nowAdvance(prev time.Time) time.Time {
	for {
		t := time.Now().UTC()
		if t.After(prev) {
			return t
		}
	}
}

func (x apiExec) run(plan Plan, ops []HOp) *histResult {
	rec := vlib.NewRec()
	rec.NoGid = true
	var lg *zap.SugaredLogger
	if x.debugLog {
		lg = debugLogger()
	}
	tr := sessiontracker.NewSessionTracker(rec.Writer(), lg)
	res := &histResult{emitted: make([][]vlib.Call, len(ops)), err: make([]error, len(ops))}
	far := time.Date(2100, 1, 1, 0, 0, 0, 0, time.UTC)
	// "older than every arrival": every arrival of this process happened after
	// procStart, whereas the audit records' own timestamps lie in 2022 - a
	// correlator that aged entries by record time instead of arrival time
	// would lose them here.
	past := procStart.Add(-time.Second)
	stamps := make([]time.Time, len(ops)) // reading taken after op i (realClock)
	last := time.Now().UTC()
	for i, op := range ops {
		n0 := rec.Len()
		ts := vlib.BaseTSms + int64(tsIdx(i))
		seq := uint32(1000 + i)
		switch op.Kind {
		case opLogin, opRelogin:
			at := time.Now().UTC() // as the sshd processor stamps it
			if x.realClock {
				last = nowAdvance(last)
				at = last
			}
			res.err[i] = tr.RemoteLogin(common.RemoteUserLogin{
				Source: identityEvent(op.K, plan.Pid[op.K], at), PID: plan.Pid[op.K],
				CredUserID: fmt.Sprintf("cred%d@example.com", userIdx(op.K, plan.Pid[op.K]))})
		case opRec:
			ev := vlib.APIEvent(plan.Sid[op.K], auparse.AUDIT_LOGIN, strconv.Itoa(plan.Pid[op.K]), ts, seq, "success")
			ev.Data = map[string]string{"old-ses": oldSesOf(plan, op.K, i), "old-auid": "4294967295", "auid": "1000"}
			res.err[i] = tr.AuditdEvent(ev)
		case opEv, opExec:
			t := evTypes[op.Typ]
			if t == 0 {
				t = auparse.AUDIT_USER_CMD
			}
			// PAM records (USER_*, CRED_*) come from the session's sshd process
			// itself and carry its pid; commands run by the user carry another.
			epid := plan.Pid[op.K] + 10000
			if strings.HasPrefix(op.Typ, "USER_") && op.Typ != "USER_CMD" || strings.HasPrefix(op.Typ, "CRED_") {
				epid = plan.Pid[op.K]
			}
			if i%5 == 4 {
				// a process of this session that is the sshd of ANOTHER planned session
				// (started from this session's shell, before it gets a session of its own)
				epid = plan.Pid[(op.K+1)%len(plan.Pid)]
			}
			res.err[i] = tr.AuditdEvent(vlib.APIEvent(plan.Sid[op.K], t, strconv.Itoa(epid), ts, seq, resultOf(i+1)))
		case opCD:
			res.err[i] = tr.AuditdEvent(vlib.APIEvent(plan.Sid[op.K], auparse.AUDIT_CRED_DISP, strconv.Itoa(cdPid(plan.Pid[op.K], i)), ts, seq, resultOf(i)))
		case opNoSess:
			res.err[i] = tr.AuditdEvent(vlib.APIEvent("", pickType(i), sessionlessPid(plan, op, i), ts, seq, "success"))
		case opUnset:
			res.err[i] = tr.AuditdEvent(vlib.APIEvent("unset", pickType(i), sessionlessPid(plan, op, i), ts, seq, "success"))
		case opUnknown:
			res.err[i] = tr.AuditdEvent(vlib.APIEvent("9"+strconv.Itoa(90000+op.K), pickTypeNoLogin(i), "78", ts, seq, "success"))
		case opStartOpen:
			// first record of a never-seen session is not a LOGIN record;
			// its pid is that of a planned login so that a tracker opening
			// sessions on any record type would bind it.
			res.err[i] = tr.AuditdEvent(vlib.APIEvent("8"+strconv.Itoa(80000+op.K), auparse.AUDIT_USER_START, strconv.Itoa(plan.Pid[op.K]), ts, seq, "success"))
		case opClean:
			var cut time.Time
			switch {
			case op.Cut == cutNone:
				cut = past
			case op.Cut == cutAll:
				cut = far
				if x.realClock {
					last = nowAdvance(last)
					cut = last
				}
			default:
				cut = stamps[op.Cut]
			}
			tr.DeleteUsersWithoutLoginsBefore(cut)
			tr.DeleteRemoteUserLoginsBefore(cut)
		}
		if x.realClock {
			last = nowAdvance(last)
			stamps[i] = last
			last = nowAdvance(last)
		}
		res.emitted[i] = rec.Since(n0)
	}
	return res
}

// sessionlessPid: records without a session sometimes come from the very pid
// of a planned SSH login (and are then LOGIN-typed for i%5==0, see pickType).
func sessionlessPid(plan Plan, op HOp, i int) string {
	if len(plan.Pid) == 0 || i%5 != 0 {
		return "77"
	}
	return strconv.Itoa(plan.Pid[op.K%len(plan.Pid)])
}

func pickType(i int) auparse.AuditMessageType {
	ts := []auparse.AuditMessageType{auparse.AUDIT_LOGIN, auparse.AUDIT_USER_CMD, auparse.AUDIT_SYSCALL, auparse.AUDIT_CRED_DISP, auparse.AUDIT_USER_START}
	return ts[i%len(ts)]
}

func pickTypeNoLogin(i int) auparse.AuditMessageType {
	ts := []auparse.AuditMessageType{auparse.AUDIT_USER_CMD, auparse.AUDIT_SYSCALL, auparse.AUDIT_CRED_DISP, auparse.AUDIT_USER_START, auparse.AUDIT_USER_END}
	return ts[i%len(ts)]
}

// ---------- raw-line executor: the real parser + reassembler + Read loop ----------

// rawExec feeds the history as raw audit lines and logins to a fresh
// Auditd.Read. Both channels are unbuffered; after every item a harmless
// sentinel item is offered, and its acceptance proves that the single
// consuming goroutine has finished the previous item. Each history gets its
// own Read and must finish before the first 500 ms reassembler maintenance
// tick; otherwise the run is inconclusive (the maintenance goroutine may take
// over callbacks, which makes processing order differ from line order).
type rawExec struct{}

var errInconclusiveTick = fmt.Errorf("history overlapped a reassembler maintenance tick")

func (rawExec) run(plan Plan, ops []HOp) (*histResult, error) {
	rec := vlib.NewRec()
	audits := make(chan string)
	logins := make(chan common.RemoteUserLogin)
	a := auditd.Auditd{Audits: audits, Logins: logins, EventW: rec.Writer(), Health: health.NewHealth()}
	ctx, cancel := context.WithCancel(context.Background())
	done := make(chan error, 1)
	start := time.Now()
	go func() { done <- a.Read(ctx) }()
	res := &histResult{emitted: make([][]vlib.Call, len(ops)), err: make([]error, len(ops))}
	seq := uint32(5000)
	sentinelPid := 3000000
	var readErr error
	send := func(lines ...string) bool {
		for _, l := range lines {
			select {
			case audits <- l:
			case readErr = <-done:
				return false
			}
		}
		// sentinel: a record without session, complete on its own
		seq++
		select {
		case audits <- vlib.AuUser("USER_ACCT", vlib.BaseTSms+900000, seq, 1, "4294967295", "PAM:accounting", "success"):
		case readErr = <-done:
			return false
		}
		return true
	}
	sendLogin := func(l common.RemoteUserLogin) bool {
		select {
		case logins <- l:
		case readErr = <-done:
			return false
		}
		sentinelPid++
		select {
		case logins <- common.RemoteUserLogin{Source: identityEvent(9999, sentinelPid, time.Now().UTC()), PID: sentinelPid, CredUserID: "sentinel"}:
		case readErr = <-done:
			return false
		}
		return true
	}
	ok := true
	for i, op := range ops {
		if !ok {
			break
		}
		n0 := rec.Len()
		ts := vlib.BaseTSms + int64(tsIdx(i))
		seq++
		switch op.Kind {
		case opLogin, opRelogin:
			ok = sendLogin(common.RemoteUserLogin{Source: identityEvent(op.K, plan.Pid[op.K], time.Now().UTC()), PID: plan.Pid[op.K], CredUserID: fmt.Sprintf("cred%d@example.com", userIdx(op.K, plan.Pid[op.K]))})
		case opRec:
			ok = send(vlib.AuLoginFrom(ts, seq, strconv.Itoa(plan.Pid[op.K]), plan.Sid[op.K], oldSesOf(plan, op.K, i)))
		case opEv:
			typ := op.Typ
			if !rawUserTypes[typ] {
				typ = "USER_CMD"
			}
			rpid := plan.Pid[op.K]
			if i%5 == 4 {
				rpid = plan.Pid[(op.K+1)%len(plan.Pid)]
			}
			ok = send(vlib.AuUser(typ, ts, seq, rpid, plan.Sid[op.K], "PAM:x", "success"))
		case opExec:
			ok = send(vlib.ExecSpec{TSms: ts, Seq: seq, PID: plan.Pid[op.K] + 10000, Ses: plan.Sid[op.K], Success: "yes",
				Exe: "/usr/bin/ls", Args: []string{"ls", "-l", fmt.Sprintf("/tmp/%d", i)}, Paths: []string{"/usr/bin/ls"}, Cwd: "/root"}.Lines()...)
		case opCD:
			rt := "success"
			if resultOf(i) == "fail" {
				rt = "failed"
			}
			ok = send(vlib.AuUser("CRED_DISP", ts, seq, cdPid(plan.Pid[op.K], i), plan.Sid[op.K], "PAM:setcred", rt))
		case opNoSess:
			ok = send(vlib.AuUser("USER_CMD", ts, seq, 77, "", "PAM:x", "success"))
		case opUnset:
			if i%2 == 0 {
				// a LOGIN record whose session is the kernel's unset value, from the
				// pid of a planned SSH login (legal: e.g. a login that was not
				// assigned a session id)
				ok = send(vlib.AuLogin(ts, seq, sessionlessPid(plan, op, 0), "4294967295"))
			} else {
				ok = send(vlib.AuUser("USER_CMD", ts, seq, 77, "4294967295", "PAM:x", "success"))
			}
		case opUnknown:
			ok = send(vlib.AuUser("USER_CMD", ts, seq, 78, "9"+strconv.Itoa(90000+op.K), "PAM:x", "success"))
		case opStartOpen:
			ok = send(vlib.AuUser("USER_START", ts, seq, plan.Pid[op.K], "8"+strconv.Itoa(80000+op.K), "PAM:session_open", "success"))
		case opClean:
			// no access to the tracker at this level: cleanup is the Read
			// loop's one-minute ticker, which these short runs never reach.
		}
		res.emitted[i] = rec.Since(n0)
	}
	elapsed := time.Since(start)
	cancel()
	if ok {
		select {
		case readErr = <-done:
		case <-time.After(30 * time.Second):
			return nil, fmt.Errorf("Auditd.Read did not return 30s after cancel")
		}
	}
	if !ok {
		return nil, fmt.Errorf("Auditd.Read stopped early: %v", readErr)
	}
	if elapsed > 400*time.Millisecond {
		return nil, errInconclusiveTick
	}
	return res, nil
}

// ---------- history generators ----------

func mkPlan(n int) Plan {
	p := Plan{}
	for k := 0; k < n; k++ {
		p.Sid = append(p.Sid, strconv.Itoa(500+k))
		// distinct pids, pairwise congruent modulo 2^16 (pid_max is 2^22 on
		// 64-bit Linux): sessions 2j and 2j+1 differ only above bit 15
		p.Pid = append(p.Pid, 25000+k/2+(k%2)*65536*(1+(k/2)%60))
	}
	return p
}

// enumHistories calls f with every history of exactly `length` operations
// over the alphabet (login/rec/cd at most once per session). Every shorter
// history is a prefix of one of them and the oracle is evaluated after every
// operation, so this covers all histories of length <= length.
func enumHistories(nsess, length int, extras []HOp, shard, nshards int, f func(ops []HOp)) int {
	type cnt struct{ login, rec, cd bool }
	used := make([]cnt, nsess)
	ops := make([]HOp, 0, length)
	count := 0
	leaf := 0
	var dfs func()
	dfs = func() {
		if len(ops) == length {
			if leaf%nshards == shard {
				cp := make([]HOp, length)
				copy(cp, ops)
				f(cp)
				count++
			}
			leaf++
			return
		}
		for k := 0; k < nsess; k++ {
			// symmetry: session k+1 may only be touched after session k was
			if k > 0 && !(used[k-1].login || used[k-1].rec || touched(ops, k-1)) {
				break
			}
			if !used[k].login {
				used[k].login = true
				ops = append(ops, HOp{Kind: opLogin, K: k})
				dfs()
				ops = ops[:len(ops)-1]
				used[k].login = false
			}
			if !used[k].rec {
				used[k].rec = true
				ops = append(ops, HOp{Kind: opRec, K: k})
				dfs()
				ops = ops[:len(ops)-1]
				used[k].rec = false
			}
			if !used[k].cd {
				used[k].cd = true
				ops = append(ops, HOp{Kind: opCD, K: k})
				dfs()
				ops = ops[:len(ops)-1]
				used[k].cd = false
			}
			ops = append(ops, HOp{Kind: opEv, K: k, Typ: evTypeNames[len(ops)%len(evTypeNames)]})
			dfs()
			ops = ops[:len(ops)-1]
		}
		for _, e := range extras {
			ops = append(ops, e)
			dfs()
			ops = ops[:len(ops)-1]
		}
	}
	dfs()
	return count
}

func touched(ops []HOp, k int) bool {
	for _, o := range ops {
		if o.K == k && (o.Kind == opEv || o.Kind == opCD || o.Kind == opRec || o.Kind == opLogin) {
			return true
		}
	}
	return false
}

// randHistory draws a long history: nsess sessions, each with its login at a
// random position relative to its own events, interleaved randomly, with
// uncorrelated traffic and cleanup calls mixed in as requested.
type randOpts struct {
	nsess        int
	maxEvents    int
	uncorrelated bool // mix in nosess/unset/unknown/startopen and login-less / session-less halves
	cleanups     string
	exec         bool
}

func randHistory(rng *vlib.Rng, o randOpts) (Plan, []HOp) {
	plan := mkPlan(o.nsess)
	// per-session op queues
	queues := make([][]HOp, 0, o.nsess+1)
	for k := 0; k < o.nsess; k++ {
		var q []HOp
		ne := rng.Intn(o.maxEvents + 1)
		if rng.Chance(2) {
			ne = 260 + rng.Intn(300) // a busy session: hundreds of records, possibly all held
			if rng.Chance(15) {
				ne = 1001 + rng.Intn(300) // ... or more than a thousand
			}
		}
		q = append(q, HOp{Kind: opRec, K: k})
		for e := 0; e < ne; e++ {
			if o.exec && rng.Chance(30) {
				q = append(q, HOp{Kind: opExec, K: k})
			} else if rng.Chance(4) {
				q = append(q, HOp{Kind: opRec, K: k}) // the session's LOGIN record once more, mid-session
			} else {
				q = append(q, HOp{Kind: opEv, K: k, Typ: vlib.PickOne(rng, evTypeNames)})
			}
		}
		hasCD := rng.Chance(70)
		if hasCD {
			q = append(q, HOp{Kind: opCD, K: k})
			for e := rng.Intn(3); e > 0; e-- { // strays after the end
				q = append(q, HOp{Kind: opEv, K: k, Typ: vlib.PickOne(rng, evTypeNames)})
			}
		}
		// pre-LOGIN-record noise of the same session id
		if rng.Chance(20) {
			q = append([]HOp{{Kind: opEv, K: k, Typ: vlib.PickOne(rng, evTypeNames)}}, q...)
		}
		// the login at a random split point; sometimes absent (cron-like)
		if !(o.uncorrelated && rng.Chance(15)) {
			pos := rng.Intn(len(q) + 1)
			q = append(q[:pos], append([]HOp{{Kind: opLogin, K: k}}, q[pos:]...)...)
		}
		// sometimes the session half is absent (login without session)
		if o.uncorrelated && rng.Chance(10) {
			var q2 []HOp
			for _, x := range q {
				if x.Kind == opLogin {
					q2 = append(q2, x)
				}
			}
			q = q2
		}
		queues = append(queues, q)
	}
	var extra []HOp
	if o.uncorrelated {
		for e := rng.Intn(3*o.nsess + 2); e > 0; e-- {
			kinds := []string{opNoSess, opUnset, opUnknown, opStartOpen}
			extra = append(extra, HOp{Kind: vlib.PickOne(rng, kinds), K: rng.Intn(o.nsess)})
		}
	}
	switch o.cleanups {
	case "none":
		for e := rng.Intn(4); e > 0; e-- {
			extra = append(extra, HOp{Kind: opClean, Cut: cutNone})
		}
	case "mixed":
		for e := rng.Intn(4); e > 0; e-- {
			c := cutNone
			if rng.Chance(40) {
				c = cutAll
			}
			extra = append(extra, HOp{Kind: opClean, Cut: c})
		}
	}
	if len(extra) > 0 {
		queues = append(queues, extra)
	}
	// random interleaving preserving each queue's order
	var ops []HOp
	for {
		var live []int
		for i, q := range queues {
			if len(q) > 0 {
				live = append(live, i)
			}
		}
		if len(live) == 0 {
			break
		}
		i := vlib.PickOne(rng, live)
		ops = append(ops, queues[i][0])
		queues[i] = queues[i][1:]
	}
	return plan, ops
}
