package main

import (
	"context"
	"encoding/json"
	"errors"
	"fmt"
	"strconv"
	"strings"
	"time"

	"github.com/elastic/go-libaudit/v2/auparse"
	"github.com/metal-toolbox/auditevent"

	"github.com/metal-toolbox/audito-maldito/internal/common"
	"github.com/metal-toolbox/audito-maldito/internal/health"
	"github.com/metal-toolbox/audito-maldito/processors/auditd"
	"github.com/metal-toolbox/audito-maldito/processors/auditd/sessiontracker"
	"github.com/metal-toolbox/audito-maldito/verif/vlib"
)

func init() {
	register("C15", "fault_enumeration", checkC15)
	childEntries["c15"] = childC15
}

var malformedLines = []string{
	"this is not an audit record",
	"type=SYSCALL audit(1668460000.001:101): no msg marker",
	"type=USER_START msg=audit(notatime:12): pid=1",
	"type=USER_START msg=audit(1668460000.001): pid=1 missing sequence",
	"msg=audit(1668460000.001:101): no type",
	"\x00\x01\x02\xff\xfe binary junk",
	"type= msg=audit(1668460000.001:5):",
	"typo=USER_END msg=audit(1668460000.001:101): pid=1",
	" ",
}

// c15Stream is one generated audit stream with at most one injected fault.
type c15Stream struct {
	Kind      string // malformed | interleave | write-fail | bad-login | bad-pid | clean
	Lines     []string
	Groups    map[string]auGroup // by marker, groups expected to be emitted
	FaultPos  int                // line index of the malformed line / login position
	FaultLine string
	FailAt    int // recorder fails at this Encode (1-based)
	BadLogin  common.RemoteUserLogin
	// LoginAfter >= 0: the session's login is delivered after that many lines
	// (the held events are then written by the flush inside RemoteLogin);
	// -1: the login is bound before the first line.
	LoginAfter int
	Pid        int
	Ses        string
}

// interleave merges record groups line-wise according to pattern (a list of
// group indices, one per line).
func interleave(groups [][]string, r *vlib.Rng) []string {
	idx := make([]int, len(groups))
	var out []string
	for {
		var live []int
		for g := range groups {
			if idx[g] < len(groups[g]) {
				live = append(live, g)
			}
		}
		if len(live) == 0 {
			return out
		}
		g := vlib.PickOne(r, live)
		out = append(out, groups[g][idx[g]])
		idx[g]++
	}
}

// genMarkedGroup renders kernel event number k with a unique marker that
// survives into the UserAction: the first argument of an execve event, or the
// peer address of a PAM record (it becomes the summary object's secondary).
func genMarkedGroup(r *vlib.Rng, k int, tsms int64, seq uint32, pid int, ses string) (auGroup, string) {
	g := auGroup{TSms: tsms}
	if r.Chance(45) {
		marker := fmt.Sprintf("10.77.%d.%d", k/250, k%250)
		g.Kind = vlib.PickOne(r, []string{"USER_START", "USER_END", "CRED_ACQ", "CRED_REFR", "USER_ACCT"})
		l := vlib.AuUser(g.Kind, tsms, seq, pid, ses, "PAM:thing", "success")
		l = strings.Replace(l, "hostname=127.0.0.1 addr=127.0.0.1", "hostname="+marker+" addr="+marker, 1)
		g.Lines = []string{l}
		g.Success = true
		return g, marker
	}
	marker := fmt.Sprintf("marker-%d", k)
	e := vlib.ExecSpec{TSms: tsms, Seq: seq, PID: pid + 1, Ses: ses, Success: vlib.PickOne(r, []string{"yes", "no"}),
		Exe: "/usr/bin/env", Cwd: "/home/someuser", EOE: r.Chance(20), Args: []string{marker}}
	for a := r.Intn(4); a > 0; a-- {
		e.Args = append(e.Args, vlib.PickOne(r, []string{"-l", "a b", "/etc/passwd"}))
	}
	for p := r.Intn(3); p > 0; p-- {
		e.Paths = append(e.Paths, vlib.PickOne(r, []string{"/usr/bin/env", "/lib64/ld-linux-x86-64.so.2"}))
	}
	g.Kind = "SYSCALL"
	g.HasArgs = true
	g.NArgs = len(e.Args)
	g.Lines = e.Lines()
	return g, marker
}

// markerOf extracts the marker from an emitted UserAction.
func markerOf(ev *auditevent.AuditEvent) string {
	if args, ok := ev.Metadata.Extra["process_args"].([]any); ok && len(args) > 0 {
		return fmt.Sprint(args[0])
	}
	if obj, ok := ev.Metadata.Extra["object"].(map[string]any); ok {
		return fmt.Sprint(obj["secondary"])
	}
	return ""
}

func c15Gen(seed int64, i int) c15Stream {
	r := vlib.NewRng(seed, "C15/"+strconv.Itoa(i))
	s := c15Stream{Groups: map[string]auGroup{}, FaultPos: -1, LoginAfter: -1, Pid: 20000 + i%10000, Ses: strconv.Itoa(2000 + i%5000)}
	kinds := []string{"malformed", "interleave", "write-fail", "bad-login", "bad-pid", "clean"}
	s.Kind = kinds[i%len(kinds)]
	n := 3 + r.Intn(12)
	if r.Chance(5) {
		n = 100
	}
	seq := uint32(200)
	s.Lines = append(s.Lines, vlib.AuLogin(vlib.BaseTSms, seq, strconv.Itoa(s.Pid), s.Ses))
	var pending [][]string
	flush := func() {
		if len(pending) > 0 {
			s.Lines = append(s.Lines, interleave(pending, r)...)
			pending = nil
		}
	}
	for k := 1; k <= n; k++ {
		seq++
		// two consecutive kernel events share one millisecond timestamp (as they do
		// all the time in real logs); each carries a unique marker instead
		g, marker := genMarkedGroup(r, k, vlib.BaseTSms+int64((k+1)/2), seq, s.Pid, s.Ses)
		s.Groups[marker] = g
		if s.Kind == "interleave" && len(g.Lines) > 1 {
			pending = append(pending, g.Lines)
			if len(pending) == 2+r.Intn(2) {
				flush()
			}
			continue
		}
		flush()
		s.Lines = append(s.Lines, g.Lines...)
	}
	flush()
	switch s.Kind {
	case "malformed":
		s.FaultLine = malformedLines[(i/len(kinds))%len(malformedLines)]
		// every position for short streams (cycling), random beyond
		s.FaultPos = (i / (len(kinds) * len(malformedLines))) % (len(s.Lines) + 1)
		if len(s.Lines) > 40 {
			s.FaultPos = r.Intn(len(s.Lines) + 1)
		}
		s.Lines = append(s.Lines[:s.FaultPos], append([]string{s.FaultLine}, s.Lines[s.FaultPos:]...)...)
	case "write-fail":
		s.FailAt = 1 + (i/len(kinds))%(n+1)
		if (i/len(kinds))%2 == 1 {
			// late login: the failing write may be one of the flush at login time
			s.LoginAfter = 1 + r.Intn(len(s.Lines))
		}
	case "bad-login":
		bad := []common.RemoteUserLogin{
			{Source: identityEvent(7, 0, time.Now()), PID: 0, CredUserID: "c"},
			{Source: identityEvent(7, -5, time.Now()), PID: -5, CredUserID: "c"},
			{Source: nil, PID: 99, CredUserID: "c"},
			{Source: identityEvent(7, 99, time.Now()), PID: 99, CredUserID: ""},
			// the same defects on a login whose PID is that of the stream's own session
			// (already open and bound when the login arrives after the LOGIN record)
			{Source: nil, PID: s.Pid, CredUserID: "c"},
			{Source: identityEvent(7, s.Pid, time.Now()), PID: s.Pid, CredUserID: ""},
		}
		s.BadLogin = bad[(i/len(kinds))%len(bad)]
		s.FaultPos = (i / (len(kinds) * len(bad))) % (len(s.Lines) + 1)
	case "bad-pid":
		seq++
		bad := vlib.PickOne(r, []string{"abc", "", "12x", "0x10"})
		l := vlib.AuLogin(vlib.BaseTSms+500, seq, bad, strconv.Itoa(9000+i%500))
		if bad == "" {
			l = strings.Replace(l, " pid= ", " ", 1)
		}
		s.FaultLine = l
		s.FaultPos = r.Intn(len(s.Lines) + 1)
		s.Lines = append(s.Lines[:s.FaultPos], append([]string{l}, s.Lines[s.FaultPos:]...)...)
	}
	return s
}

func childC15(args []string) {
	_, seed, from, to, out, _ := childArgs(args)
	defer out.finish()
	for i := from; i < to; i++ {
		s := c15Gen(seed, i)
		if c15Swallowed[s.Kind] >= 2 {
			out.add("streams_skipped_after_repeated_swallowed_faults", 1)
			out.add("streams", 1)
			continue // two witnesses are enough; each costs the full wait
		}
		out.begin(i, s.Kind)
		c15Run(i, s, out)
	}
}

var c15Swallowed = map[string]int{}

func c15Run(i int, s c15Stream, out *childOut) {
	rec := vlib.NewRec()
	rec.FailAt = s.FailAt
	audits := make(chan string)
	logins := make(chan common.RemoteUserLogin)
	a := auditd.Auditd{Audits: audits, Logins: logins, EventW: rec.Writer(), Health: health.NewHealth()}
	ctx, cancel := context.WithCancel(context.Background())
	defer cancel()
	done := make(chan error, 1)
	go func() { done <- a.Read(ctx) }()
	wit := map[string]any{"index": i, "kind": s.Kind, "fault_pos": s.FaultPos, "fault_line": s.FaultLine, "fail_at": s.FailAt, "lines": s.Lines}
	sig := "C15:" + s.Kind
	var readErr error
	returned := false
	sendLogin := func(l common.RemoteUserLogin) {
		if returned {
			return
		}
		select {
		case logins <- l:
		case readErr = <-done:
			returned = true
		}
	}
	// bind the session first so that every event must be emitted (or, for
	// LoginAfter >= 0, after that many lines, behind two barrier records)
	bind := func() {
		sendLogin(common.RemoteUserLogin{Source: identityEvent(3, s.Pid, time.Now().UTC()), PID: s.Pid, CredUserID: "c"})
		sendLogin(common.RemoteUserLogin{Source: identityEvent(9999, 3999998, time.Now().UTC()), PID: 3999998, CredUserID: "s"})
	}
	if s.LoginAfter < 0 {
		bind()
	}
	for k, l := range s.Lines {
		if returned {
			break
		}
		if k == s.LoginAfter {
			for b := 0; b < 2 && !returned; b++ {
				select {
				case audits <- vlib.AuUser("USER_ACCT", vlib.BaseTSms+800000+int64(b), uint32(80000+b), 1, "4294967295", "PAM:accounting", "success"):
				case readErr = <-done:
					returned = true
				}
			}
			bind()
			out.add("write_fail_streams_with_late_login", 1)
		}
		if s.Kind == "bad-login" && k == s.FaultPos {
			sendLogin(s.BadLogin)
		}
		if returned {
			break
		}
		select {
		case audits <- l:
		case readErr = <-done:
			returned = true
		}
	}
	if s.Kind == "bad-login" && s.FaultPos >= len(s.Lines) {
		sendLogin(s.BadLogin)
	}
	if s.LoginAfter >= len(s.Lines) {
		bind()
	}
	// two barrier lines: acceptance of the second proves the first was pushed
	for k := 0; k < 2 && !returned; k++ {
		select {
		case audits <- vlib.AuUser("USER_ACCT", vlib.BaseTSms+900000+int64(k), uint32(90000+k), 1, "4294967295", "PAM:accounting", "success"):
		case readErr = <-done:
			returned = true
		}
	}
	faulty := s.Kind == "malformed" || s.Kind == "write-fail" || s.Kind == "bad-login" || s.Kind == "bad-pid"
	if faulty && s.Kind == "malformed" {
		if _, err := auparse.ParseLogLine(s.FaultLine); err == nil {
			faulty = false // the parser accepts it: then it simply is a record
			out.add("malformed_candidates_accepted_by_parser", 1)
		}
	}
	out.add("streams", 1)
	out.add("lines", len(s.Lines))
	out.add("kind:"+s.Kind, 1)
	if faulty {
		// Read must stop with the right error. The error travels through a
		// non-blocking 1-slot channel: give the loop time, then classify.
		if !returned {
			select {
			case readErr = <-done:
				returned = true
			case <-time.After(20 * time.Second):
			}
		}
		if !returned {
			stuck, why := classifyStacks(vlib.AllStacks(), "auditd.(*Auditd).Read")
			c15Swallowed[s.Kind]++
			if stuck {
				out.violation(sig+":fault-swallowed", fmt.Sprintf("Read keeps running (%s) although the stream contained the fault at position %d: %q", why, s.FaultPos, trunc(s.FaultLine, 80)), wit)
			} else {
				out.inconclusive(sig + ": Read neither returned nor parked: " + why)
			}
			return
		}
		out.class(fmt.Sprintf("%s|pos=%d|fail=%d", s.Kind, s.FaultPos, s.FailAt))
		out.add("faults_fired", 1)
		switch s.Kind {
		case "malformed":
			if readErr == nil || errors.Is(readErr, context.Canceled) || !strings.Contains(readErr.Error(), s.FaultLine) {
				out.violation(sig+":error-does-not-identify-line", fmt.Sprintf("Read returned %v for malformed line %q", readErr, s.FaultLine), wit)
			}
			// The lines received before the offending one were parsed: each of them
			// contributes to an event handed to the correlator, the kernel event
			// that was still being assembled when the processor stopped included.
			before := map[string]bool{}
			for _, l := range s.Lines[:s.FaultPos] {
				before[l] = true
			}
			expected := 0
			if s.FaultPos > 0 {
				expected = 1 // the LOGIN record
			}
			for _, g := range s.Groups {
				for _, l := range g.Lines {
					if before[l] {
						expected++
						break
					}
				}
			}
			if got := rec.Len(); got < expected {
				out.violation(sig+":received-records-never-reached-the-correlator", fmt.Sprintf("%d kernel events had records before the malformed line at position %d, only %d events were emitted by the time Read returned", expected, s.FaultPos, got), wit)
			} else {
				out.add("events_before_a_malformed_line_accounted_for", expected)
			}
		case "write-fail":
			if readErr == nil || !errors.Is(readErr, vlib.ErrInjected) {
				out.violation(sig+":error-does-not-wrap-cause", fmt.Sprintf("Read returned %v after the %d-th event write failed", readErr, s.FailAt), wit)
			}
			var ste *sessiontracker.SessionTrackerError
			if errors.As(readErr, &ste) && !ste.AuditEventWriteFailed() {
				out.violation(sig+":wrong-error-kind", readErr.Error(), wit)
			}
		case "bad-login":
			var ste *sessiontracker.SessionTrackerError
			if readErr == nil || !errors.As(readErr, &ste) || !ste.RemoteLoginFailed() {
				out.violation(sig+":error-kind", fmt.Sprintf("Read returned %v for an invalid login", readErr), wit)
			}
		case "bad-pid":
			var ste *sessiontracker.SessionTrackerError
			if readErr == nil || !errors.As(readErr, &ste) || !ste.ParsePIDFailed() {
				out.violation(sig+":error-kind", fmt.Sprintf("Read returned %v for a LOGIN record with an unparsable pid", readErr), wit)
			}
		}
		return
	}
	// clean / interleaved streams: Read keeps running, every group emitted exactly once, whole
	if returned {
		out.violation(sig+":read-stopped", fmt.Sprintf("Read returned %v on a well-formed stream", readErr), wit)
		return
	}
	deadline := time.Now().Add(20 * time.Second)
	for rec.Len() < len(s.Groups)+1 && time.Now().Before(deadline) {
		time.Sleep(100 * time.Microsecond)
	}
	seen := map[string]int{}
	for _, c := range rec.Calls() {
		m := markerOf(&c.Ev)
		seen[m]++
		g, ok := s.Groups[m]
		if !ok {
			continue
		}
		if d := wholeGroup(&c.Ev, g); d != "" {
			out.violation(sig+":group-split", d, wit)
		}
	}
	out.class(fmt.Sprintf("%s|groups=%d", s.Kind, len(s.Groups)))
	for mk, g := range s.Groups {
		switch seen[mk] {
		case 1:
			out.add("events_reaching_correlator", 1)
		case 0:
			out.violation(sig+":event-lost", fmt.Sprintf("record group %q... never reached the correlator", trunc(g.Lines[0], 90)), wit)
		default:
			out.violation(sig+":event-split-or-duplicated", fmt.Sprintf("record group %q... produced %d events", trunc(g.Lines[0], 90), seen[mk]), wit)
		}
	}
	if s.Kind == "interleave" {
		out.add("interleaved_streams", 1)
	}
	if i%61 == 0 {
		out.sample(map[string]any{"kind": s.Kind, "first_lines": s.Lines[:min(4, len(s.Lines))], "groups": len(s.Groups)})
	}
}

// wholeGroup checks that the emitted event reflects all records of its group.
func wholeGroup(ev *auditevent.AuditEvent, g auGroup) string {
	exp, err := expectedFrom(g.Lines)
	if err != nil {
		return ""
	}
	if len(exp.Process.Args) > 0 {
		if jsonOf(ev.Metadata.Extra["process_args"]) != jsonOf(exp.Process.Args) {
			return fmt.Sprintf("event lacks the EXECVE arguments of its group: %s vs %s", jsonOf(ev.Metadata.Extra["process_args"]), jsonOf(exp.Process.Args))
		}
	}
	if jsonOf(ev.Metadata.Extra["object"]) != jsonOf(jsonRound(exp.Summary.Object)) {
		return fmt.Sprintf("event object %s differs from the group's %s", jsonOf(ev.Metadata.Extra["object"]), jsonOf(exp.Summary.Object))
	}
	if fmt.Sprint(ev.Metadata.Extra["how"]) != exp.Summary.How && !(ev.Metadata.Extra["how"] == nil && exp.Summary.How == "") {
		return fmt.Sprintf("event how %v differs from the group's %q", ev.Metadata.Extra["how"], exp.Summary.How)
	}
	return ""
}

func jsonRound(v any) any {
	var out any
	_ = jsonUnmarshal(jsonOf(v), &out)
	return out
}

func min(a, b int) int {
	if a < b {
		return a
	}
	return b
}

func checkC15(r *vlib.Run) int {
	n := r.Pick(3000, 150000)
	res := runChildren(r, "mon-race", "c15", n, (n+31)/32, 20*time.Minute)
	kinds := map[string]int{}
	for k, v := range res.stats {
		if strings.HasPrefix(k, "kind:") {
			kinds[k[5:]] = v
		}
	}
	r.Set("streams", res.stats["streams"])
	r.Set("lines", res.stats["lines"])
	r.Set("streams_per_kind", kinds)
	r.Set("faults_fired", res.stats["faults_fired"])
	r.Set("malformed_candidates_accepted_by_parser", res.stats["malformed_candidates_accepted_by_parser"])
	r.Set("events_reaching_correlator", res.stats["events_reaching_correlator"])
	r.Set("interleaved_streams", res.stats["interleaved_streams"])
	r.Set("write_fail_streams_with_late_login", res.stats["write_fail_streams_with_late_login"])
	r.Set("build", "-race")
	r.Require(res.stats["streams"] == n, "not every stream ran")
	r.Require(res.stats["faults_fired"] > n/2, "too few faults fired")
	r.Require(res.stats["events_reaching_correlator"] > n, "too few events observed")
	r.Assumptions = []string{"a line is malformed iff go-libaudit's auparse.ParseLogLine rejects it (candidates it accepts are treated as records)",
		"every stream runs in a fresh Auditd.Read with the session's login bound first, so each well-formed kernel event must yield exactly one UserAction"}
	return r.Finish(res.stats["streams"], res.distinct.Len(), "generated audit streams (3-100 events) with: a malformed line (9 kinds) at every position in turn; line-wise interleavings of the records of 2-3 concurrent kernel events; the event writer failing at the k-th event for every k, with the login bound first or late (so that the failing write is one of the hold-queue flush); an invalid login (PID 0, negative, nil source, empty credential; also with the PID of the stream's own open session) at every position; a LOGIN record with an unparsable pid; clean streams; distinct = (kind, fault position, fault index) combinations")
}

func jsonUnmarshal(s string, v any) error { return json.Unmarshal([]byte(s), v) }
