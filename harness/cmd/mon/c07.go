package main

import (
	"context"
	"fmt"
	"io"
	"os"
	"path/filepath"
	"reflect"
	"strconv"
	"strings"
	"syscall"
	"time"

	"github.com/elastic/go-libaudit/v2/auparse"

	"github.com/metal-toolbox/audito-maldito/ingesters/auditlog"
	"github.com/metal-toolbox/audito-maldito/ingesters/namedpipe"
	"github.com/metal-toolbox/audito-maldito/ingesters/syslog"
	"github.com/metal-toolbox/audito-maldito/internal/common"
	"github.com/metal-toolbox/audito-maldito/internal/health"
	"github.com/metal-toolbox/audito-maldito/processors/auditd"
	"github.com/metal-toolbox/audito-maldito/processors/sshd"
	"github.com/metal-toolbox/audito-maldito/verif/vlib"
)

func init() {
	register("C07", "exploration", checkC07)
	childEntries["c07"] = childC07
}

func mkFifo(dir, name string) string {
	p := filepath.Join(dir, name)
	if err := syscall.Mkfifo(p, 0o600); err != nil {
		panic(err)
	}
	return p
}

// chunkWrite writes data to w in pieces chosen by the PRNG.
func chunkWrite(w io.Writer, data []byte, r *vlib.Rng, mode int) {
	for len(data) > 0 {
		n := len(data)
		switch mode {
		case 0: // whole
		case 1: // byte at a time
			n = 1
		case 2: // random cuts
			n = 1 + r.Intn(len(data))
			if n > 4096 && r.Bool() {
				n = 1 + r.Intn(200)
			}
		case 3: // cut exactly after a newline
			if i := strings.IndexByte(string(data), '\n'); i >= 0 {
				n = i + 1
			}
		case 4: // cut just before a newline
			if i := strings.IndexByte(string(data[1:]), '\n'); i >= 0 {
				n = i + 1
			}
		}
		if _, err := w.Write(data[:n]); err != nil {
			return
		}
		data = data[n:]
		if mode != 0 && r.Chance(5) {
			time.Sleep(time.Duration(r.Intn(300)) * time.Microsecond)
		}
	}
}

func c07Case(seed int64, tier string, i int) (vlib.SshCase, string) {
	corpus := c07Corpus(seed, tier)
	c := corpus.At(i % corpus.Len())
	pid := pidTokens[i%len(pidTokens)]
	if i%20 == 7 {
		// the newline is the only framing: a record that ends in a carriage
		// return, a blank or a tab keeps it on both paths
		c.Msg += []string{"\r", " ", "\t", "\r\r"}[(i/20)%4]
	}
	return c, pid
}

var c07CorpusCache *vlib.SshCorpusT

func c07Corpus(seed int64, tier string) *vlib.SshCorpusT {
	if c07CorpusCache == nil {
		n := 20000
		if tier == "thorough" {
			n = 500000
		}
		c07CorpusCache = vlib.NewSshCorpus(seed, "C07", n, vlib.SshForms)
	}
	return c07CorpusCache
}

func childC07(args []string) {
	tier, seed, from, to, out, rest := childArgs(args)
	defer out.finish()
	ctx := context.Background()
	switch rest[0] {
	case "busy-consumer":
		// the same accepted-login line framed through the ingester callback and
		// handed over directly, while the login consumer is busy for a while
		dwell := 3 * time.Second
		if tier == "thorough" {
			dwell = 12 * time.Second
		}
		slowHandoff(ctx, out, "C07", seed, from, to, dwell, func(i int) bool { return i%4 != 0 })
	case "callback":
		a, b := newSshHarness(8), newSshHarness(8)
		for i := from; i < to; i++ {
			c, pid := c07Case(seed, tier, i)
			pad := strings.Repeat(" ", i%4)
			line := pid + " " + pad + c.Msg + "\n"
			out.begin(i, line)
			oa := a.observe(ctx, "direct", pid, c.Msg, "", false)
			ob := b.observe(ctx, "syslog", pid, c.Msg, line, false)
			out.add("pairs", 1)
			out.add("form:"+c.Form, 1)
			out.class(c.Class + "|pad" + strconv.Itoa(i%4))
			if strings.Contains(c.Msg, "  ") {
				out.add("messages_with_internal_double_space", 1)
			}
			if d := diffObs(oa, ob); d != "" {
				out.violation("C07:callback:"+c.Form+":"+strings.SplitN(d, ":", 2)[0], fmt.Sprintf("%s | line %q", d, line), map[string]any{"index": i, "pid": pid, "line": line, "case": c})
				continue
			}
			if i%4001 == 0 {
				out.sample(map[string]any{"line": line, "events_each_path": len(oa.Calls), "logins_each_path": len(oa.Logins)})
			}
		}
	case "audit-parse":
		for i := from; i < to; i++ {
			r := vlib.NewRng(seed, "C07/au/"+strconv.Itoa(i))
			for _, l := range auditLinesSample(r, i) {
				out.begin(i, l)
				out.add("audit_records", 1)
				m1, e1 := auparse.ParseLogLine(l)
				m2, e2 := auparse.ParseLogLine(l + "\n")
				if (e1 == nil) != (e2 == nil) {
					out.violation("C07:audit-parse:error-differs", fmt.Sprintf("%v vs %v for %q", e1, e2, l), map[string]any{"line": l})
					continue
				}
				if e1 != nil {
					continue
				}
				d1, _ := m1.Data()
				d2, _ := m2.Data()
				t1, _ := m1.Tags()
				t2, _ := m2.Tags()
				if m1.RecordType != m2.RecordType || !m1.Timestamp.Equal(m2.Timestamp) || m1.Sequence != m2.Sequence ||
					m1.RawData != m2.RawData || !reflect.DeepEqual(d1, d2) || !reflect.DeepEqual(t1, t2) {
					out.violation("C07:audit-parse:message-differs", fmt.Sprintf("parse with and without newline differ for %q: raw %q vs %q", l, m1.RawData, m2.RawData), map[string]any{"line": l})
				}
				out.class("au|" + m1.RecordType.String())
			}
		}
	case "fifo":
		for i := from; i < to; i++ {
			out.begin(i, "fifo batch")
			c07FifoBatch(seed, tier, i, out)
		}
	case "audit-fifo":
		for i := from; i < to; i++ {
			out.begin(i, "audit fifo batch")
			c07AuditFifoBatch(seed, i, out)
		}
	}
}

func diffObs(a, b sshObs) string {
	if a.Panic != b.Panic {
		return fmt.Sprintf("panic: direct %q, via ingester %q", a.Panic, b.Panic)
	}
	if (a.Err == nil) != (b.Err == nil) {
		return fmt.Sprintf("error: direct %v, via ingester %v", a.Err, b.Err)
	}
	if len(a.Calls) != len(b.Calls) {
		return fmt.Sprintf("events: direct %d, via ingester %d", len(a.Calls), len(b.Calls))
	}
	for i := range a.Calls {
		if x, y := normEvent(a.Calls[i].Ev), normEvent(b.Calls[i].Ev); x != y {
			return fmt.Sprintf("event-content: direct %s, via ingester %s", x, y)
		}
	}
	if len(a.Logins) != len(b.Logins) {
		return fmt.Sprintf("logins: direct %d, via ingester %d", len(a.Logins), len(b.Logins))
	}
	for i := range a.Logins {
		if x, y := normLogin(a.Logins[i]), normLogin(b.Logins[i]); x != y {
			return fmt.Sprintf("login-content: direct %s, via ingester %s", x, y)
		}
	}
	return ""
}

// auditLinesSample renders one record of every kind the generator knows.
func auditLinesSample(r *vlib.Rng, i int) []string {
	ts := vlib.BaseTSms + int64(i)
	seq := uint32(100 + i)
	ses := strconv.Itoa(100 + r.Intn(900))
	pid := 1000 + r.Intn(30000)
	ls := []string{
		vlib.AuLogin(ts, seq, strconv.Itoa(pid), ses),
		vlib.AuUser("USER_START", ts, seq, pid, ses, "PAM:session_open", vlib.PickOne(r, []string{"success", "failed"})),
		vlib.AuUser("USER_END", ts, seq, pid, ses, "PAM:session_close", "success"),
		vlib.AuUser("CRED_ACQ", ts, seq, pid, ses, "PAM:setcred", "success"),
		vlib.AuUser("CRED_DISP", ts, seq, pid, ses, "PAM:setcred", "success"),
		vlib.AuUser("CRED_REFR", ts, seq, pid, ses, "PAM:setcred", "success"),
		vlib.AuUser("USER_LOGIN", ts, seq, pid, ses, "login", vlib.PickOne(r, []string{"success", "failed"})),
		vlib.AuUser("USER_ACCT", ts, seq, pid, "4294967295", "PAM:accounting", "success"),
		vlib.AuUser("USER_CMD", ts, seq, pid, ses, "x y", "success"),
	}
	ls = append(ls, vlib.ExecSpec{TSms: ts, Seq: seq, PID: pid, Ses: ses, Success: vlib.PickOne(r, []string{"yes", "no"}),
		Exe: "/usr/bin/ls", Args: []string{"ls", "-l", "a b"}, HexArgs: r.Bool(), Paths: []string{"/usr/bin/ls", "/lib64/ld-linux-x86-64.so.2"}, Cwd: "/home/some user", EOE: r.Bool()}.Lines()...)
	return ls
}

// c07FifoBatch: K sshd records through a real FIFO -> SyslogIngester.Ingest
// versus the same (pid, message) pairs handed to the processor directly.
func c07FifoBatch(seed int64, tier string, b int, out *childOut) {
	const K = 40
	r := vlib.NewRng(seed, "C07/fifo/"+strconv.Itoa(b))
	dir, _ := os.MkdirTemp("", "verif-c07-")
	defer os.RemoveAll(dir)
	fifo := mkFifo(dir, "sshd-pipe")
	direct := newSshHarness(K + 8)
	var stream []byte
	type rec struct{ pid, msg string }
	var recs []rec
	for k := 0; k < K; k++ {
		c, pid := c07Case(seed, tier, b*K+k+r.Intn(1000)*K)
		if k == K/2 {
			// one record longer than any internal read buffer: a certificate
			// login whose key id is several kilobytes long
			c = vlib.GenSsh(r, "accepted-cert", -1, -1)
			long := strings.Repeat("team=sre,role=admin;", 150+r.Intn(300))
			c.Msg = strings.Replace(c.Msg, " ID "+c.Fields["keyid"]+" (serial", " ID "+long+" (serial", 1)
			out.add("fifo_records_longer_than_4096", 1)
		}
		pad := strings.Repeat(" ", r.Intn(4))
		stream = append(stream, []byte(pid+" "+pad+c.Msg+"\n")...)
		recs = append(recs, rec{pid, c.Msg})
		out.class("fifo|" + c.Form)
	}
	ctx := context.Background()
	var want []string
	var wantLogins []string
	for _, rc := range recs {
		o := direct.observe(ctx, "direct", rc.pid, rc.msg, "", false)
		for _, c := range o.Calls {
			want = append(want, normEvent(c.Ev))
		}
		for _, l := range o.Logins {
			wantLogins = append(wantLogins, normLogin(l))
		}
	}
	// path C: the FIFO
	recC := vlib.NewRec()
	recC.NoGid = true
	logins := make(chan common.RemoteUserLogin, K+8)
	proc := sshd.NewSshdProcessor(ctx, logins, vNode, vMID, recC.Writer(), newMetrics())
	npi := namedpipe.NewNamedPipeIngester(nopLogger(), health.NewHealth())
	sli := syslog.NewSyslogIngester(fifo, proc, npi)
	done := make(chan error, 1)
	go func() { done <- sli.Ingest(ctx) }()
	w, err := os.OpenFile(fifo, os.O_WRONLY, 0)
	if err != nil {
		out.inconclusive("cannot open fifo for writing: " + err.Error())
		return
	}
	chunkWrite(w, stream, r, b%5)
	w.Close()
	select {
	case <-done:
	case <-time.After(60 * time.Second):
		out.inconclusive("SyslogIngester.Ingest did not return 60 s after the writer closed the FIFO")
		return
	}
	out.add("fifo_batches", 1)
	out.add("fifo_records", K)
	out.add("fifo_bytes", len(stream))
	var got, gotLogins []string
	for _, c := range recC.Calls() {
		got = append(got, normEvent(c.Ev))
	}
	close(logins)
	for l := range logins {
		gotLogins = append(gotLogins, normLogin(l))
	}
	if !reflect.DeepEqual(want, got) {
		i := 0
		for i < len(want) && i < len(got) && want[i] == got[i] {
			i++
		}
		w1, g1 := "<none>", "<none>"
		if i < len(want) {
			w1 = want[i]
		}
		if i < len(got) {
			g1 = got[i]
		}
		out.violation("C07:fifo:events-differ", fmt.Sprintf("direct path produced %d events, FIFO path %d; first difference at %d: direct %s / fifo %s", len(want), len(got), i, w1, g1),
			map[string]any{"batch": b, "stream": string(stream)})
		return
	}
	if !reflect.DeepEqual(wantLogins, gotLogins) {
		out.violation("C07:fifo:logins-differ", fmt.Sprintf("direct path forwarded %d logins, FIFO path %d", len(wantLogins), len(gotLogins)), map[string]any{"batch": b, "stream": string(stream)})
	}
}

// c07AuditFifoBatch: audit records through FIFO -> AuditLogIngester -> Read
// versus the same records without delimiter fed straight into Read.
func c07AuditFifoBatch(seed int64, b int, out *childOut) {
	// A disagreement must reproduce: the comparison is repeated once before it
	// is reported (a reassembler maintenance tick falling into the few
	// milliseconds of a run can delay the last event of either side).
	if first := c07AuditFifoOnce(seed, b, out, false); first {
		c07AuditFifoOnce(seed, b, out, true)
	}
}

// c07AuditFifoOnce returns true when the two feeds disagreed.
func c07AuditFifoOnce(seed int64, b int, out *childOut, report bool) bool {
	r := vlib.NewRng(seed, "C07/aufifo/"+strconv.Itoa(b))
	o := randOpts{nsess: 2 + r.Intn(3), maxEvents: 6, exec: true}
	plan, ops := randHistory(r, o)
	// all logins first (through the Logins channel), then all lines
	var lines []string
	seq := uint32(7000)
	for i, op := range ops {
		ts := vlib.BaseTSms + int64(i)
		seq++
		switch op.Kind {
		case opRec:
			lines = append(lines, vlib.AuLogin(ts, seq, strconv.Itoa(plan.Pid[op.K]), plan.Sid[op.K]))
		case opEv:
			typ := op.Typ
			if !rawUserTypes[typ] {
				typ = "USER_CMD"
			}
			lines = append(lines, vlib.AuUser(typ, ts, seq, plan.Pid[op.K], plan.Sid[op.K], "PAM:x", "success"))
		case opExec:
			args := []string{"ls", "-l", fmt.Sprintf("/tmp/%d", i)}
			if i%3 == 0 { // an EXECVE record longer than any internal read buffer
				for a := 0; a < 300+r.Intn(300); a++ {
					args = append(args, fmt.Sprintf("argument-%05d", a))
				}
				out.add("audit_fifo_records_longer_than_4096", 1)
			}
			lines = append(lines, vlib.ExecSpec{TSms: ts, Seq: seq, PID: plan.Pid[op.K] + 10000, Ses: plan.Sid[op.K], Success: "yes",
				Exe: "/usr/bin/ls", Args: args, Paths: []string{"/usr/bin/ls"}, Cwd: "/root"}.Lines()...)
		case opCD:
			lines = append(lines, vlib.AuUser("CRED_DISP", ts, seq, plan.Pid[op.K], plan.Sid[op.K], "PAM:setcred", "success"))
		}
	}
	// runRead feeds one Auditd.Read. wantN < 0: direct mode - the lines go in
	// through an unbuffered channel followed by two barrier records, so the
	// acceptance of the second proves everything before was pushed. wantN >= 0:
	// the feed goes through the FIFO and the run waits until wantN events have
	// been written (the count the direct run produced) or 30 s have passed.
	runRead := func(feed func(audits chan string, stop <-chan struct{}), wantN int) ([]string, error) {
		rec := vlib.NewRec()
		audits := make(chan string)
		if wantN >= 0 {
			audits = make(chan string, 16)
		}
		logins := make(chan common.RemoteUserLogin)
		a := auditd.Auditd{Audits: audits, Logins: logins, EventW: rec.Writer(), Health: health.NewHealth()}
		ctx, cancel := context.WithCancel(context.Background())
		defer cancel()
		done := make(chan error, 1)
		go func() { done <- a.Read(ctx) }()
		sent := 3000000
		for k := range plan.Sid {
			select {
			case logins <- common.RemoteUserLogin{Source: identityEvent(k, plan.Pid[k], time.Now().UTC()), PID: plan.Pid[k], CredUserID: "c"}:
			case err := <-done:
				return nil, err
			}
		}
		// sentinel login: its acceptance proves the last real login was handled
		select {
		case logins <- common.RemoteUserLogin{Source: identityEvent(9999, sent, time.Now().UTC()), PID: sent, CredUserID: "s"}:
		case err := <-done:
			return nil, err
		}
		stop := make(chan struct{})
		feed(audits, stop)
		if wantN < 0 {
			for k := 0; k < 2; k++ {
				select {
				case audits <- vlib.AuUser("USER_ACCT", vlib.BaseTSms+900000+int64(k), uint32(90000+k), 1, "4294967295", "PAM:accounting", "success"):
				case err := <-done:
					return nil, err
				}
			}
		} else {
			deadline := time.Now().Add(30 * time.Second)
			for rec.Len() < wantN && time.Now().Before(deadline) {
				select {
				case err := <-done:
					return nil, err
				default:
				}
				time.Sleep(500 * time.Microsecond)
			}
			time.Sleep(2 * time.Millisecond) // room for surplus events to show up
		}
		close(stop)
		var got []string
		for _, c := range rec.Calls() {
			got = append(got, string(c.Snap))
		}
		return got, nil
	}
	want, err := runRead(func(audits chan string, stop <-chan struct{}) {
		for _, l := range lines {
			select {
			case audits <- l:
			case <-time.After(30 * time.Second): // Read is gone; the barrier below reports it
				return
			}
		}
	}, -1)
	if err != nil {
		if report {
			out.violation("C07:audit-fifo:direct-read-failed", err.Error(), map[string]any{"lines": lines})
		}
		return true
	}
	dir, _ := os.MkdirTemp("", "verif-c07a-")
	defer os.RemoveAll(dir)
	fifo := mkFifo(dir, "audit-pipe")
	got, err := runRead(func(audits chan string, stop <-chan struct{}) {
		np := namedpipe.NewNamedPipeIngester(nopLogger(), health.NewHealth())
		alp := auditlog.NewAuditLogIngester(fifo, audits, np)
		ictx, icancel := context.WithCancel(context.Background())
		go func() { _ = alp.Ingest(ictx) }()
		go func() { <-stop; icancel() }()
		w, err := os.OpenFile(fifo, os.O_WRONLY, 0)
		if err != nil {
			return
		}
		chunkWrite(w, []byte(strings.Join(lines, "\n")+"\n"), r, b%5)
		w.Close()
	}, len(want))
	if err != nil {
		if report {
			out.violation("C07:audit-fifo:read-failed-via-fifo", err.Error(), map[string]any{"lines": lines})
		}
		return true
	}
	if !report {
		out.add("audit_fifo_batches", 1)
		out.add("audit_fifo_records", len(lines))
		out.class("aufifo|" + strconv.Itoa(len(plan.Sid)))
	}
	if !reflect.DeepEqual(want, got) {
		if report {
			out.violation("C07:audit-fifo:events-differ", fmt.Sprintf("direct feed produced %d UserActions, FIFO feed %d (reproduced twice)", len(want), len(got)), map[string]any{"lines": lines, "direct": want, "fifo": got})
		}
		return true
	}
	return false
}

func checkC07(r *vlib.Run) int {
	nCb := r.Pick(20000, 500000)
	nAu := r.Pick(500, 20000)
	nFifo := r.Pick(50, 1250) // x40 records
	nAuFifo := r.Pick(40, 600)
	stats := map[string]int{}
	dist := vlib.NewDistinct()
	for _, ph := range []struct {
		name string
		n    int
		bin  string
	}{{"callback", nCb, "mon"}, {"audit-parse", nAu, "mon"}, {"fifo", nFifo, "mon-race"}, {"audit-fifo", nAuFifo, "mon-race"}, {"busy-consumer", 64, "mon"}} {
		per := (ph.n + 31) / 32
		if ph.name == "busy-consumer" {
			per = 64
		}
		res := runChildren(r, ph.bin, "c07", ph.n, per, 10*time.Minute, ph.name)
		for k, v := range res.stats {
			stats[k] += v
		}
		for _, k := range res.distinct.Keys() {
			dist.Add(k)
		}
	}
	forms := map[string]int{}
	for k, v := range stats {
		if strings.HasPrefix(k, "form:") {
			forms[k[5:]] = v
		}
	}
	r.Set("callback_pairs_per_form", forms)
	r.Set("callback_pairs", stats["pairs"])
	r.Set("messages_with_internal_double_space", stats["messages_with_internal_double_space"])
	r.Set("audit_records_parsed_with_and_without_newline", stats["audit_records"])
	r.Set("fifo_records", stats["fifo_records"])
	r.Set("fifo_bytes_written", stats["fifo_bytes"])
	r.Set("audit_fifo_batches", stats["audit_fifo_batches"])
	r.Set("audit_fifo_records", stats["audit_fifo_records"])
	r.Set("fifo_records_longer_than_4096", stats["fifo_records_longer_than_4096"]+stats["audit_fifo_records_longer_than_4096"])
	r.Set("busy_consumer_cases_framed", stats["slow_via_syslog-ingester"])
	r.Set("busy_consumer_cases_direct", stats["slow_via_direct"])
	r.Set("busy_consumer_dwell_ms", r.Pick(3000, 12000))
	r.Require(stats["slow_via_syslog-ingester"] >= 40 && stats["slow_via_direct"] >= 10, "busy-consumer cases did not run")
	r.Require(len(forms) == len(vlib.SshForms), "not every form compared")
	r.Require(stats["pairs"] == nCb, "not every callback pair ran")
	r.Require(stats["fifo_records"] >= nFifo*40*9/10, "too few FIFO records")
	r.Require(stats["audit_fifo_batches"] >= nAuFifo*9/10, "too few audit FIFO batches")
	r.Require(stats["messages_with_internal_double_space"] > 10, "no message with internal double space")
	r.Require(stats["fifo_records_longer_than_4096"] > 10 && stats["audit_fifo_records_longer_than_4096"] > 10, "too few records longer than the read buffer went through the FIFOs")
	total := stats["pairs"] + stats["audit_records"] + stats["fifo_batches"] + stats["audit_fifo_batches"]
	r.Assumptions = []string{"both sides of every comparison are the real code; events are compared without uuid and clock reading",
		"the rsyslog template frames records as '<pid> <msg>\\n' (contrib/rsyslog/config/rsyslog.d/journald.conf)"}
	return r.Finish(total, dist.Len(), "every C06 form/field class once directly (pid,msg) and once as '<pid> <0-3 spaces><msg>\\n' through SyslogIngester.Process; 40-record streams through a real FIFO and SyslogIngester.Ingest under five write chunkings; every audit record kind parsed with and without trailing newline; audit histories through FIFO -> AuditLogIngester -> Auditd.Read versus fed directly; accepted logins framed and direct while the login consumer is busy for 3 s (12 s thorough); distinct = field-shape class x padding, record types, batch shapes")
}
