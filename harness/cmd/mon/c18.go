package main

import (
	"context"
	"encoding/json"
	"fmt"
	"net/http/httptest"
	"sort"
	"strconv"
	"strings"
	"sync"
	"time"

	"github.com/anishathalye/porcupine"

	"github.com/metal-toolbox/audito-maldito/internal/common"
	"github.com/metal-toolbox/audito-maldito/internal/health"
	"github.com/metal-toolbox/audito-maldito/verif/vlib"
)

func init() {
	register("C18", "exploration", checkC18)
	childEntries["c18"] = childC18
}

type hOp struct {
	Op int // 0 Add, 1 OnReady, 2 Get
	C  string
}

func (o hOp) String() string {
	switch o.Op {
	case 0:
		return "Add(" + o.C + ")"
	case 1:
		return "OnReady(" + o.C + ")"
	}
	return "Get"
}

type hOut struct {
	Code int
	Body string // canonical: sorted k=v
}

func canon(m map[string]string) string {
	ks := make([]string, 0, len(m))
	for k := range m {
		ks = append(ks, k)
	}
	sort.Strings(ks)
	var sb strings.Builder
	for _, k := range ks {
		sb.WriteString(k + "=" + m[k] + ";")
	}
	return sb.String()
}

// doGet performs one /readyz request against the real handler.
func doGet(h *health.Health) (hOut, map[string]string, string) {
	rr := httptest.NewRecorder()
	h.ReadyzHandler().ServeHTTP(rr, httptest.NewRequest("GET", "/readyz", nil))
	var anyBody map[string]any
	raw := rr.Body.String()
	if err := json.Unmarshal([]byte(raw), &anyBody); err != nil {
		return hOut{Code: rr.Code, Body: "UNPARSABLE:" + raw}, nil, raw
	}
	// 'overall' and the components this harness registers are what the
	// property speaks about; a further key in the body (a timestamp, a
	// version) is not a component status and is left alone
	body := map[string]string{}
	for k, v := range anyBody {
		known := k == health.OverallReady
		for _, n := range hNames {
			known = known || k == n
		}
		sv, isString := v.(string)
		switch {
		case known && !isString:
			return hOut{Code: rr.Code, Body: "UNPARSABLE:" + raw}, nil, raw
		case known:
			body[k] = sv
		case isString && (sv == health.ComponentReady || sv == health.ComponentNotReady):
			body[k] = sv // looks like a component nobody registered: the checks below will say so
		}
	}
	return hOut{Code: rr.Code, Body: canon(body)}, body, raw
}

// bodyConsistent is the invariant that needs no linearization: status code
// matches overall, overall is ok iff every listed component is ok.
func bodyConsistent(code int, body map[string]string) string {
	if body == nil {
		return "body is not a JSON string map"
	}
	ov, ok := body[health.OverallReady]
	if !ok {
		return "no overall key"
	}
	all := true
	for k, v := range body {
		if k == health.OverallReady {
			continue
		}
		if v != health.ComponentReady && v != health.ComponentNotReady {
			return fmt.Sprintf("component %s has status %q", k, v)
		}
		if v != health.ComponentReady {
			all = false
		}
	}
	if (ov == health.ComponentReady) != all {
		return fmt.Sprintf("overall=%s but components %v", ov, body)
	}
	if (code == 200) != (ov == health.ComponentReady) || (code != 200 && code != 503) {
		return fmt.Sprintf("status code %d with overall=%s", code, ov)
	}
	return ""
}

// model: the 15-line sequential readiness map.
type hModel map[string]bool

func (m hModel) apply(o hOp) {
	switch o.Op {
	case 0:
		m[o.C] = false
	case 1:
		m[o.C] = true
	}
}

func (m hModel) get() hOut {
	body := map[string]string{}
	all := true
	for k, v := range m {
		if v {
			body[k] = health.ComponentReady
		} else {
			body[k] = health.ComponentNotReady
			all = false
		}
	}
	code := 200
	body[health.OverallReady] = health.ComponentReady
	if !all {
		code = 503
		body[health.OverallReady] = health.ComponentNotReady
	}
	return hOut{code, canon(body)}
}

var hPorcupine = porcupine.Model{
	Init: func() interface{} { return "" },
	Step: func(st, in, out interface{}) (bool, interface{}) {
		m := hModel{}
		for _, kv := range strings.Split(st.(string), ";") {
			if kv == "" {
				continue
			}
			p := strings.SplitN(kv, "=", 2)
			m[p[0]] = p[1] == "1"
		}
		o := in.(hOp)
		if o.Op == 2 {
			return m.get() == out.(hOut), st
		}
		m.apply(o)
		ks := make([]string, 0, len(m))
		for k := range m {
			ks = append(ks, k)
		}
		sort.Strings(ks)
		var sb strings.Builder
		for _, k := range ks {
			v := "0"
			if m[k] {
				v = "1"
			}
			sb.WriteString(k + "=" + v + ";")
		}
		return true, sb.String()
	},
	DescribeOperation: func(in, out interface{}) string {
		return fmt.Sprintf("%v -> %v", in, out)
	},
}

var hNames = []string{"named-pipe-processor", "auditd-processor", "c"}

func hAlphabet() []hOp {
	var a []hOp
	for _, n := range hNames {
		a = append(a, hOp{0, n}, hOp{1, n})
	}
	return append(a, hOp{Op: 2})
}

// ---- sequential ----

func c18Sequential(r *vlib.Run) (int, *vlib.Distinct) {
	alpha := hAlphabet()
	L := r.Pick(6, 7)
	dist := vlib.NewDistinct()
	total := 1
	for i := 0; i < L; i++ {
		total *= len(alpha)
	}
	var responses int64
	var mu sync.Mutex
	parallelDo(nWorkers*8, func(sh int) {
		resp := 0
		for idx := sh; idx < total; idx += nWorkers * 8 {
			h := health.NewHealth()
			m := hModel{}
			x := idx
			seq := make([]hOp, L)
			for i := 0; i < L; i++ {
				seq[i] = alpha[x%len(alpha)]
				x /= len(alpha)
			}
			for i, o := range seq {
				switch o.Op {
				case 0:
					h.AddReadiness(o.C)
				case 1:
					h.OnReady(o.C)
				case 2:
					got, body, raw := doGet(h)
					resp++
					if d := bodyConsistent(got.Code, body); d != "" {
						r.Violation("C18:sequential:inconsistent-response", d+" | after "+fmt.Sprint(seq[:i+1])+" body "+raw, map[string]any{"sequence": fmt.Sprint(seq[:i+1])})
					} else if want := m.get(); got != want {
						r.Violation("C18:sequential:differs-from-state", fmt.Sprintf("after %v: got %d %s, registered/ready state gives %d %s", seq[:i+1], got.Code, got.Body, want.Code, want.Body), map[string]any{"sequence": fmt.Sprint(seq[:i+1])})
					}
				}
				m.apply(o)
				allReady := true
				for _, v := range m {
					allReady = allReady && v
				}
				if h.IsReady() != allReady {
					r.Violation("C18:sequential:isready", fmt.Sprintf("IsReady()=%v after %v", h.IsReady(), seq[:i+1]), map[string]any{"sequence": fmt.Sprint(seq[:i+1])})
				}
			}
		}
		mu.Lock()
		responses += int64(resp)
		mu.Unlock()
	})
	for i := 0; i < 3; i++ {
		dist.Add("seq-len-" + strconv.Itoa(L))
	}
	r.Set("sequential_sequences", total)
	r.Set("sequential_length", L)
	r.Set("sequential_responses_checked", int(responses))
	r.Set("exhaustive", true)
	return total, dist
}

// ---- concurrent, steered ----

type hProg struct {
	Name    string
	Threads [][]hOp
}

func hPrograms() []hProg {
	a, b := hNames[0], hNames[1]
	G := hOp{Op: 2}
	return []hProg{
		{"H1 (Add a;OnReady a) || Get || Get", [][]hOp{{{0, a}, {1, a}}, {G}, {G}}},
		{"H2 (Add a;Add b) || (OnReady a;OnReady b) || Get", [][]hOp{{{0, a}, {0, b}}, {{1, a}, {1, b}}, {G}}},
		{"H3 OnReady a || OnReady b || (Get;Get) [a,b registered]", [][]hOp{{{1, a}}, {{1, b}}, {G, G}}},
		{"H4 (OnReady a;Add a) || (Get;Get) || OnReady b [a,b registered]", [][]hOp{{{1, a}, {0, a}}, {G, G}, {{1, b}}}},
		{"H5 Add a || OnReady a || Get || Get", [][]hOp{{{0, a}}, {{1, a}}, {G}, {G}}},
	}
}

type hRecorded struct {
	mu  sync.Mutex
	ops []porcupine.Operation
}

func (p hProg) instance(rec *hRecorded, onResp func(code int, body map[string]string, raw string)) []func() {
	h := health.NewHealth()
	if strings.Contains(p.Name, "[a,b registered]") {
		h.AddReadiness(hNames[0])
		h.AddReadiness(hNames[1])
		rec.ops = append(rec.ops,
			porcupine.Operation{ClientId: 9, Input: hOp{0, hNames[0]}, Call: vlib.Tick(), Output: hOut{}, Return: vlib.Tick()},
			porcupine.Operation{ClientId: 9, Input: hOp{0, hNames[1]}, Call: vlib.Tick(), Output: hOut{}, Return: vlib.Tick()})
	}
	var fns []func()
	for t := range p.Threads {
		t := t
		fns = append(fns, func() {
			for _, o := range p.Threads[t] {
				call := vlib.Tick()
				var out hOut
				switch o.Op {
				case 0:
					h.AddReadiness(o.C)
				case 1:
					h.OnReady(o.C)
				case 2:
					var body map[string]string
					var raw string
					out, body, raw = doGet(h)
					onResp(out.Code, body, raw)
				}
				ret := vlib.Tick()
				rec.mu.Lock()
				rec.ops = append(rec.ops, porcupine.Operation{ClientId: t, Input: o, Call: call, Output: out, Return: ret})
				rec.mu.Unlock()
			}
		})
	}
	return fns
}

func checkLinearizable(r *vlib.Run, ops []porcupine.Operation, label string, counts map[string]int, mu *sync.Mutex) {
	res, _ := porcupine.CheckOperationsVerbose(hPorcupine, ops, 20*time.Second)
	mu.Lock()
	counts[string(res)]++
	mu.Unlock()
	switch res {
	case porcupine.Illegal:
		var d []string
		for _, o := range ops {
			d = append(d, fmt.Sprintf("[c%d %d-%d %v -> %v]", o.ClientId, o.Call, o.Return, o.Input, o.Output))
		}
		r.Violation("C18:"+label+":not-linearizable", "history is not linearizable against the sequential readiness map: "+strings.Join(d, " "), map[string]any{"history": d})
	case porcupine.Unknown:
		r.Inconclusive("porcupine timed out on a " + label + " history")
	}
}

func c18Steer(r *vlib.Run, counts map[string]int) (int, *vlib.Distinct) {
	dist := vlib.NewDistinct()
	execs := 0
	var mu sync.Mutex
	perProg := map[string]any{}
	responses := 0
	for _, p := range hPrograms() {
		var rec *hRecorded
		var bad []string
		mk := func() ([]func(), func() string) {
			rec = &hRecorded{}
			bad = nil
			fns := p.instance(rec, func(code int, body map[string]string, raw string) {
				responses++
				if d := bodyConsistent(code, body); d != "" {
					bad = append(bad, d+" body "+raw)
				}
			})
			return fns, func() string { return "" }
		}
		n, complete := exploreAll(mk, r.Pick(30000, 1000000), func(s *steer, _ string) bool {
			dist.Add(p.Name + "|" + hashInts(s.grants))
			if s.abandoned != "" {
				r.Inconclusive("steering abandoned for " + p.Name)
				return false
			}
			if s.deadlock != "" {
				r.Violation("C18:steer:deadlock", p.Name+": "+s.deadlock, map[string]any{"schedule": s.grants})
				return false
			}
			for _, b := range bad {
				r.Violation("C18:steer:inconsistent-response", fmt.Sprintf("%s: schedule %v: %s", p.Name, s.grants, b), map[string]any{"program": p.Name, "schedule": s.grants})
			}
			checkLinearizable(r, rec.ops, "steer", counts, &mu)
			return true
		})
		execs += n
		perProg[p.Name] = map[string]any{"schedules": n, "exhaustive": complete}
	}
	r.Set("steer_programs", perProg)
	r.Set("steer_responses_checked", responses)
	return execs, dist
}

// ---- child: perturbed free-running histories and WaitForReady, under -race ----

func childC18(args []string) {
	_, seed, from, to, out, rest := childArgs(args)
	defer out.finish()
	switch rest[0] {
	case "perturb":
		common.VerifLockHook = perturbHook(seed)
		for i := from; i < to; i++ {
			out.begin(i, "history")
			r := vlib.NewRng(seed, "C18/p/"+strconv.Itoa(i))
			h := health.NewHealth()
			const G, N = 8, 12
			progs := make([][]hOp, G)
			alpha := hAlphabet()
			for g := range progs {
				for k := 0; k < N; k++ {
					progs[g] = append(progs[g], vlib.PickOne(r, alpha))
				}
			}
			var mu sync.Mutex
			var ops []porcupine.Operation
			var wg sync.WaitGroup
			start := make(chan struct{})
			for g := range progs {
				g := g
				wg.Add(1)
				go func() {
					defer wg.Done()
					<-start
					for _, o := range progs[g] {
						call := vlib.Tick()
						var o2 hOut
						switch o.Op {
						case 0:
							h.AddReadiness(o.C)
						case 1:
							h.OnReady(o.C)
						case 2:
							var body map[string]string
							var raw string
							o2, body, raw = doGet(h)
							out.add("responses", 1)
							if d := bodyConsistent(o2.Code, body); d != "" {
								out.violation("C18:perturb:inconsistent-response", d+" body "+raw, map[string]any{"history": i})
							}
						}
						ret := vlib.Tick()
						mu.Lock()
						ops = append(ops, porcupine.Operation{ClientId: g, Input: o, Call: call, Output: o2, Return: ret})
						mu.Unlock()
					}
				}()
			}
			close(start)
			wg.Wait()
			res, _ := porcupine.CheckOperationsVerbose(hPorcupine, ops, 30*time.Second)
			out.add("porcupine:"+string(res), 1)
			out.add("history_ops", len(ops))
			out.class("perturb|" + strconv.Itoa(i%97))
			switch res {
			case porcupine.Illegal:
				out.violation("C18:perturb:not-linearizable", "free-running history is not linearizable against the sequential readiness map", map[string]any{"history": i})
			case porcupine.Unknown:
				out.inconclusive("porcupine timed out on a perturbed history")
			}
		}
	case "wait-cancel-then-ready":
		// Cancelled first, ready right afterwards: the context's error must win.
		// No verdict rests on timing. cancel() closes the context's done channel,
		// and closing a channel makes every goroutine that selects on it runnable
		// before close returns. So after cancel() the waiting goroutine is either
		// woken (runnable, running or already gone: it is given all the time it
		// needs to yield the error before the component is marked ready), or it
		// is still parked in its select, which means it is not selecting on the
		// context at all; only then is the component marked ready at once, and
		// whatever the goroutine yields at its next look is the verdict.
		health.DefaultReadyCheckInterval = 300 * time.Millisecond
		const waiter = "health.(*Health).WaitForReady"
		for i := from; i < to; i++ {
			out.begin(i, "WaitForReady, cancelled, then ready")
			h := health.NewHealth()
			h.AddReadiness(hNames[0])
			h.AddReadiness(hNames[1])
			h.OnReady(hNames[0])
			ctx, cancel := context.WithCancel(context.Background())
			ch := h.WaitForReady(ctx)
			// let it settle in its wait, somewhere inside a check interval
			if !waitParked(waiter, "select|chan receive|sleep", 30*time.Second) {
				out.inconclusive("C18 wait-cancel-then-ready: the waiting goroutine was not seen parked")
				cancel()
				continue
			}
			time.Sleep(time.Duration(20+10*(i%6)) * time.Millisecond)
			cancel()
			stillParked := true
			for k := 0; k < 3 && stillParked; k++ {
				stillParked = false
				for _, g := range findG(parseDump(vlib.AllStacks()), waiter) {
					// parked in a send means it has made up its mind and waits for the receiver
					if parkedState(g.State) && g.State != "chan send" {
						stillParked = true
					}
				}
				time.Sleep(time.Millisecond)
			}
			var e error
			ok, got := true, false
			if !stillParked {
				out.add("wait_cancel_then_ready_woken_by_the_cancellation", 1)
				select {
				case e, ok = <-ch:
					got = true
				case <-time.After(30 * time.Second):
				}
				h.OnReady(hNames[1])
			} else {
				out.add("wait_cancel_then_ready_still_parked_after_cancel", 1)
				h.OnReady(hNames[1])
				select {
				case e, ok = <-ch:
					got = true
				case <-time.After(30 * time.Second):
				}
			}
			out.add("wait_cancel_then_ready_cases", 1)
			switch {
			case !got:
				out.violation("C18:wait:no-error-after-cancel", "WaitForReady yielded nothing 30 s after cancellation", map[string]any{"case": i})
			case !ok || e != context.Canceled:
				out.violation("C18:wait:cancelled-first-but-completed", fmt.Sprintf("the context was cancelled while a component was not ready; the component became ready afterwards and WaitForReady completed (closed=%v err=%v) instead of yielding the context's error (waiting goroutine still parked after cancel(): %v)", !ok, e, stillParked), map[string]any{"case": i})
			}
		}
		out.class("wait-cancel-then-ready")
	case "wait":
		health.DefaultReadyCheckInterval = time.Millisecond
		for i := from; i < to; i++ {
			out.begin(i, "WaitForReady")
			r := vlib.NewRng(seed, "C18/w/"+strconv.Itoa(i))
			h := health.NewHealth()
			n := 1 + r.Intn(3)
			for k := 0; k < n; k++ {
				h.AddReadiness(hNames[k])
			}
			ctx, cancel := context.WithCancel(context.Background())
			ch := h.WaitForReady(ctx)
			var fired int64
			var ferr error
			var closed bool
			done := make(chan struct{})
			go func() {
				e, ok := <-ch
				fired = vlib.Tick()
				ferr, closed = e, !ok
				close(done)
			}()
			if i%3 == 2 { // cancel first
				for k := 0; k < n-1; k++ {
					h.OnReady(hNames[k])
				}
				time.Sleep(time.Duration(r.Intn(3)) * time.Millisecond)
				cancel()
				select {
				case <-done:
				case <-time.After(30 * time.Second):
					out.violation("C18:wait:no-error-after-cancel", "WaitForReady yielded nothing 30 s after cancellation", map[string]any{"case": i})
					continue
				}
				if closed || ferr != context.Canceled {
					out.violation("C18:wait:wrong-result-after-cancel", fmt.Sprintf("closed=%v err=%v although a component never became ready and the context was cancelled", closed, ferr), map[string]any{"case": i})
				}
				out.add("wait_cancel_cases", 1)
				continue
			}
			// mark all but the last ready, dwell, re-register one, then finish
			for k := 0; k < n-1; k++ {
				h.OnReady(hNames[k])
			}
			if n > 1 && i%2 == 0 {
				h.AddReadiness(hNames[0]) // re-registration: not ready again
				defer func() {}()
			}
			time.Sleep(time.Duration(2+r.Intn(4)) * time.Millisecond) // several check intervals with one component not ready
			select {
			case <-done:
				out.violation("C18:wait:completed-while-not-ready", "WaitForReady completed while a registered component was continuously not ready", map[string]any{"case": i})
				cancel()
				continue
			default:
			}
			if n > 1 && i%2 == 0 {
				h.OnReady(hNames[0])
			}
			s0 := vlib.Tick()
			h.OnReady(hNames[n-1])
			select {
			case <-done:
			case <-time.After(30 * time.Second):
				out.violation("C18:wait:never-completes", "WaitForReady did not complete 30 s after every component was ready", map[string]any{"case": i})
				cancel()
				continue
			}
			if !closed || fired < s0 {
				out.violation("C18:wait:completed-early-or-with-error", fmt.Sprintf("closed=%v err=%v fired@%d before the last component was marked ready @%d", closed, ferr, fired, s0), map[string]any{"case": i})
			}
			out.add("wait_ready_cases", 1)
			cancel()
		}
	}
}

func checkC18(r *vlib.Run) int {
	counts := map[string]int{}
	nSeq, dist := c18Sequential(r)
	nSteer, d2 := c18Steer(r, counts)
	for _, k := range d2.Keys() {
		dist.Add(k)
	}
	nPert := r.Pick(500, 50000)
	nWait := r.Pick(300, 3000)
	stats := map[string]int{}
	for _, ph := range []struct {
		name string
		n    int
	}{{"perturb", nPert}, {"wait", nWait}, {"wait-cancel-then-ready", r.Pick(64, 640)}} {
		res := runChildren(r, "mon-race", "c18", ph.n, (ph.n+15)/16, 20*time.Minute, ph.name)
		for k, v := range res.stats {
			stats[k] += v
		}
		for _, k := range res.distinct.Keys() {
			dist.Add(k)
		}
	}
	r.Set("steer_schedules", nSteer)
	r.Set("porcupine_verdicts_steer", counts)
	r.Set("porcupine_verdicts_perturb", map[string]int{"Ok": stats["porcupine:Ok"], "Illegal": stats["porcupine:Illegal"], "Unknown": stats["porcupine:Unknown"]})
	r.Set("perturb_history_operations", stats["history_ops"])
	r.Set("perturb_responses_checked", stats["responses"])
	r.Set("wait_ready_cases", stats["wait_ready_cases"])
	r.Set("wait_cancel_cases", stats["wait_cancel_cases"])
	r.Set("wait_cancel_then_ready_cases", stats["wait_cancel_then_ready_cases"])
	r.Set("wait_cancel_then_ready_woken_by_the_cancellation", stats["wait_cancel_then_ready_woken_by_the_cancellation"])
	r.Set("wait_cancel_then_ready_still_parked_after_cancel", stats["wait_cancel_then_ready_still_parked_after_cancel"])
	r.Require(counts["Ok"] > 50, "fewer than 50 steered histories checked by porcupine")
	r.Require(stats["porcupine:Ok"] >= nPert*9/10, "fewer than 90% of the perturbed histories were decided Ok by porcupine")
	r.Require(stats["wait_ready_cases"]+stats["wait_cancel_cases"] >= nWait*9/10, "too few WaitForReady cases")
	r.Require(stats["wait_cancel_then_ready_cases"] >= 16, "too few cancelled-then-ready cases")
	r.Sample(map[string]any{"steer_program": hPrograms()[1].Name})
	r.Assumptions = []string{"component names never equal the reserved key 'overall'",
		"WaitForReady is observed with DefaultReadyCheckInterval set to 1 ms; 'completes only after' is decided by logical-clock stamps (the channel must not fire before the last OnReady call started)"}
	return r.Finish(nSeq+nSteer+nPert+nWait, dist.Len(), "sequential: every sequence of the stated length over {Add, OnReady} x 3 names + Get against the 15-line map model (status code, body, IsReady); concurrent: five programs explored exhaustively at lock granularity and 8-goroutine free-running histories under -race with delays at the lock sites, each response checked for internal consistency and each history for linearizability (porcupine); WaitForReady ready/cancel cases; distinct = distinct schedules and history buckets")
}
