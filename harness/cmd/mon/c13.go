package main

import (
	"context"
	"fmt"
	"os"
	"strconv"
	"strings"
	"sync/atomic"
	"syscall"
	"time"
	"unsafe"

	"github.com/metal-toolbox/audito-maldito/ingesters/auditlog"
	"github.com/metal-toolbox/audito-maldito/ingesters/namedpipe"
	"github.com/metal-toolbox/audito-maldito/ingesters/syslog"
	"github.com/metal-toolbox/audito-maldito/internal/common"
	"github.com/metal-toolbox/audito-maldito/internal/health"
	"github.com/metal-toolbox/audito-maldito/processors/auditd"
	"github.com/metal-toolbox/audito-maldito/processors/sshd"
	"github.com/metal-toolbox/audito-maldito/verif/vlib"
)

func init() {
	register("C13", "fault_enumeration", checkC13)
	childEntries["c13"] = childC13
}

func fionread(f *os.File) int {
	var n int32
	_, _, e := syscall.Syscall(syscall.SYS_IOCTL, f.Fd(), 0x541B, uintptr(unsafe.Pointer(&n)))
	if e != 0 {
		return -1
	}
	return int(n)
}

// c13Scenario enumerates worker x blocking state (x capacity).
type c13Scenario struct {
	Worker string // namedpipe | syslog | auditlog | read
	State  string
	Cap    int
}

func c13Scenarios() []c13Scenario {
	var out []c13Scenario
	for _, w := range []string{"namedpipe", "syslog", "auditlog"} {
		for _, s := range []string{"waiting-for-writer", "idle-pipe", "mid-record", "cancelled-before-start"} {
			out = append(out, c13Scenario{w, s, 16})
		}
	}
	out = append(out, c13Scenario{"syslog", "login-handoff-blocked", 0})
	for _, c := range []int{0, 1, 16, 10000} {
		out = append(out, c13Scenario{"auditlog", "downstream-full-consumer-stopped", c})
		out = append(out, c13Scenario{"auditlog", "downstream-empty-consumer-running", c})
	}
	out = append(out, c13Scenario{"read", "idle", 0}, c13Scenario{"read", "busy", 0}, c13Scenario{"read", "flushing-expired-events", 0}, c13Scenario{"read", "cancelled-before-start", 0})
	return out
}

const c13Watch = 30 * time.Second

// c13After bounds the wait for a return after cancel(). Its expiry alone
// decides nothing: the verdict is "stuck" only if the dump shows the worker
// parked, i.e. with no pending wake-up although cancel() has long returned.
const c13After = 12 * time.Second

// after this many hang verdicts a child stops: each costs a full watchdog and
// the witnesses so far already decide the run
const c13MaxStuck = 3

var stuckTotal int

var stuckSeen = map[string]int{}

var c13Tier string

// c13Dwell: two repetitions in fifty (quick; ten in a thousand, thorough) stay
// in the confirmed blocking state for 2.5 s (12 s) before cancel().
func c13Dwell(i int, out *childOut) {
	// 23 and 101 are coprime to the number of scenarios (25): every scenario gets
	// its share, and the long cases are spread over the child processes
	if c13Tier == "thorough" {
		if i%101 == 7 {
			time.Sleep(12 * time.Second)
			out.add("cancellations_after_a_long_stay_in_the_state", 1)
		}
		return
	}
	if i%23 == 7 {
		time.Sleep(2500 * time.Millisecond)
		out.add("cancellations_after_a_long_stay_in_the_state", 1)
	}
}

func childC13(args []string) {
	tier, seed, from, to, out, _ := childArgs(args)
	c13Tier = tier
	defer out.finish()
	scs := c13Scenarios()
	dir, _ := os.MkdirTemp("", "verif-c13-")
	defer os.RemoveAll(dir)
	for i := from; i < to; i++ {
		sc := scs[i%len(scs)]
		if stuckSeen[sc.Worker+"/"+sc.State] >= 1 || stuckTotal >= c13MaxStuck {
			out.add("scenarios_skipped_after_repeated_stuck_verdicts", 1)
			continue // two witnesses of this hang are enough; each costs a full watchdog
		}
		out.begin(i, fmt.Sprintf("%s/%s/cap=%d", sc.Worker, sc.State, sc.Cap))
		if sc.Worker == "read" && sc.State == "flushing-expired-events" {
			// costs the reassembler's 2 s event timeout: one repetition in five
			if (i/len(scs))%5 == 0 {
				c13ReadExpiring(i, sc, out)
			} else {
				out.class("read|" + sc.State) // covered by the repetitions that do run it
			}
		} else if sc.Worker == "read" {
			c13Read(seed, i, sc, out)
		} else {
			c13Ingest(seed, i, sc, dir, out)
		}
	}
}

func c13Ingest(seed int64, i int, sc c13Scenario, dir string, out *childOut) {
	fifo := mkFifo(dir, "p"+strconv.Itoa(i))
	defer os.Remove(fifo)
	ctx, cancel := context.WithCancel(context.Background())
	defer cancel()
	if sc.State == "cancelled-before-start" {
		cancel() // the worker is started with a context that is cancelled already
	}
	var delivered, afterReturn int64
	var returned int32
	note := func() {
		atomic.AddInt64(&delivered, 1)
		if atomic.LoadInt32(&returned) == 1 {
			atomic.AddInt64(&afterReturn, 1)
		}
	}
	npi := namedpipe.NewNamedPipeIngester(nopLogger(), health.NewHealth())
	done := make(chan error, 1)
	var ch chan string
	var logins chan common.RemoteUserLogin
	stopConsumer := make(chan struct{})
	fn := "namedpipe.(*NamedPipeIngester).Ingest"
	switch sc.Worker {
	case "namedpipe":
		go func() {
			done <- npi.Ingest(ctx, fifo, '\n', func(context.Context, string) error { note(); return nil })
		}()
	case "syslog":
		logins = make(chan common.RemoteUserLogin) // nobody receives
		rec := vlib.NewRec()
		rec.Pre = note
		// built with a context that is never cancelled: only the worker's own context is
		proc := sshd.NewSshdProcessor(context.Background(), logins, vNode, vMID, rec.Writer(), newMetrics())
		sli := syslog.NewSyslogIngester(fifo, proc, npi)
		go func() { done <- sli.Ingest(ctx) }()
	case "auditlog":
		ch = make(chan string, sc.Cap)
		alp := auditlog.NewAuditLogIngester(fifo, ch, npi)
		go func() { done <- alp.Ingest(ctx) }()
		if sc.State != "downstream-full-consumer-stopped" {
			go func() {
				for {
					select {
					case <-ch:
						note()
					case <-stopConsumer:
						return
					}
				}
			}()
		}
	}
	defer close(stopConsumer)
	wit := map[string]any{"index": i, "scenario": sc}
	sig := fmt.Sprintf("C13:%s:%s", sc.Worker, sc.State)
	var w *os.File
	openW := func() bool {
		var err error
		w, err = os.OpenFile(fifo, os.O_WRONLY, 0)
		return err == nil
	}
	reached := false
	switch sc.State {
	case "cancelled-before-start":
		reached = true // nothing to wait for: there is no writer and there will be none
	case "waiting-for-writer":
		// Ingest's opener goroutine is in open(2), Ingest itself parked in select.
		// (An implementation whose open does not wait for a writer is parked in
		// its first read instead: just as much a state to be cancelled from.)
		reached = waitParked(fn, "select|IO wait|syscall", c13Watch)
	case "idle-pipe":
		if openW() {
			reached = waitParked(fn, "IO wait|syscall", c13Watch)
		}
	case "mid-record":
		if openW() {
			w.WriteString("4242 Accepted password for partial li")
			reached = waitParked(fn, "IO wait|syscall", c13Watch)
		}
	case "login-handoff-blocked":
		if openW() {
			// every accepted branch has its own hand-off site: cycle through them
			lines := []string{
				"4242 Accepted password for bob from 10.0.0.1 port 22 ssh2\n",
				"4242 Accepted publickey for bob from 10.0.0.1 port 22 ssh2: ED25519 SHA256:abcdefghijklmnopqrstuvwxyz0123456789ABCDEFG\n",
				"4242 Accepted publickey for bob from 10.0.0.1 port 22 ssh2: ED25519-CERT SHA256:abcdefghijklmnopqrstuvwxyz0123456789ABCDEFG ID bob@example.com (serial 7) CA ED25519 SHA256:caabcdefghijklmnopqrstuvwxyz0123456789ABC\n",
				"4242 Accepted publickey for bob from 10.0.0.1 port 22 ssh2: ED25519 SHA256:abcdefghijklmnopqrstuvwxyz0123456789ABCDEFG trailing\n",
			}
			w.WriteString(lines[(i/len(c13Scenarios()))%len(lines)])
			reached = waitParked("sshd.process", "select|chan send", c13Watch)
		}
	case "downstream-full-consumer-stopped":
		if openW() {
			line := vlib.AuUser("USER_ACCT", vlib.BaseTSms, 1, 1, "4294967295", "PAM:accounting", "success") + "\n"
			go func() {
				for k := 0; k < sc.Cap+3; k++ {
					if _, err := w.WriteString(line); err != nil {
						return
					}
				}
			}()
			reached = waitParked("auditlog.(*AuditLogIngester).Process", "chan send|select", c13Watch)
			if reached && len(ch) != sc.Cap {
				reached = false
			}
		}
	case "downstream-empty-consumer-running":
		if openW() {
			line := vlib.AuUser("USER_ACCT", vlib.BaseTSms, 1, 1, "4294967295", "PAM:accounting", "success") + "\n"
			for k := 0; k < 5; k++ {
				w.WriteString(line)
			}
			deadline := time.Now().Add(c13Watch)
			for atomic.LoadInt64(&delivered) < 5 && time.Now().Before(deadline) {
				time.Sleep(100 * time.Microsecond)
			}
			reached = atomic.LoadInt64(&delivered) == 5 && waitParked(fn, "IO wait|syscall", c13Watch)
		}
	}
	if !reached {
		select {
		case err := <-done:
			out.inconclusive(fmt.Sprintf("%s: worker returned (%v) before the state was established", sig, err))
		default:
			out.inconclusive(sig + ": blocking state not confirmed from the goroutine dump")
		}
		cancel()
		releaseOpener(fifo, w)
		return
	}
	out.add("states_reached", 1)
	out.class(fmt.Sprintf("%s|%s|cap=%d", sc.Worker, sc.State, sc.Cap))
	// Most cancellations come right after the state was reached; some only after
	// the worker has been blocked in it for a while (workload, not verdict): a
	// wait that changes its nature after some time must be cancellable too.
	c13Dwell(i, out)
	t0 := time.Now()
	cancel()
	var err error
	select {
	case err = <-done:
	case <-time.After(c13After):
		stuck, why := classifyStacks(vlib.AllStacks(), fn)
		stuckTotal++
		if stuck {
			stuckSeen[sc.Worker+"/"+sc.State]++
			out.violation(sig+":stuck-after-cancel", fmt.Sprintf("worker still parked %s after cancel: %s", c13After, why), wit)
		} else {
			stuckSeen[sc.Worker+"/"+sc.State]++
			out.inconclusive(sig + ": no return within the watchdog but worker not parked: " + why)
		}
		// un-stick so that later scenarios do not see this goroutine
		if ch != nil {
			go func() {
				for range ch {
				}
			}()
		}
		releaseOpener(fifo, w)
		return
	}
	atomic.StoreInt32(&returned, 1)
	out.add("cancellations", 1)
	out.add("max:return_latency_us", int(time.Since(t0).Microseconds()))
	_ = err // any return value is acceptable after cancellation: the statement only demands the return
	// grace period: nothing may be delivered after the return
	if w != nil {
		w.WriteString("4242 Accepted password for late from 10.0.0.2 port 22 ssh2\n")
	}
	time.Sleep(2 * time.Millisecond)
	if n := atomic.LoadInt64(&afterReturn); n > 0 {
		out.violation(sig+":delivery-after-return", fmt.Sprintf("%d deliveries after the worker returned", n), wit)
	}
	releaseOpener(fifo, w)
	if i%23 == 0 {
		out.sample(map[string]any{"scenario": sc, "returned": fmt.Sprint(err), "latency_us": time.Since(t0).Microseconds()})
	}
}

// releaseOpener lets an opener goroutine abandoned in open(2) finish, so that
// thousands of cases do not exhaust OS threads.
func releaseOpener(fifo string, w *os.File) {
	if w != nil {
		w.Close()
		return
	}
	fd, err := syscall.Open(fifo, syscall.O_WRONLY|syscall.O_NONBLOCK|syscall.O_CLOEXEC, 0)
	if err == nil {
		syscall.Close(fd)
	}
}

func c13Read(seed int64, i int, sc c13Scenario, out *childOut) {
	rec := vlib.NewRec()
	// the line buffer between ingester and processor: unbuffered, small, and
	// the daemon's ten thousand slots (a busy stream keeps it filled)
	audits := make(chan string, []int{0, 16, 10000}[(i/len(c13Scenarios()))%3])
	logins := make(chan common.RemoteUserLogin)
	a := auditd.Auditd{Audits: audits, Logins: logins, EventW: rec.Writer(), Health: health.NewHealth()}
	ctx, cancel := context.WithCancel(context.Background())
	defer cancel()
	if sc.State == "cancelled-before-start" {
		cancel()
	}
	done := make(chan error, 1)
	go func() { done <- a.Read(ctx) }()
	sig := "C13:read:" + sc.State
	wit := map[string]any{"index": i, "scenario": sc}
	stopFeed := make(chan struct{})
	feedDone := make(chan struct{})
	var cancelled int32
	if sc.State == "busy" {
		// bind a session, then stream its events continuously
		pid := 41000 + i%1000
		sid := strconv.Itoa(600 + i%300)
		ok := true
		send := func(l string) {
			select {
			case audits <- l:
			case <-time.After(c13Watch):
				ok = false
			}
		}
		select {
		case logins <- common.RemoteUserLogin{Source: identityEvent(1, pid, time.Now().UTC()), PID: pid, CredUserID: "c"}:
		case <-time.After(c13Watch):
			ok = false
		}
		send(vlib.AuLogin(vlib.BaseTSms, 10, strconv.Itoa(pid), sid))
		if !ok {
			out.inconclusive(sig + ": Read did not accept the session set-up")
			return
		}
		go func() {
			defer close(feedDone)
			feedStart := time.Now()
			seq := uint32(11)
			for {
				seq++
				l := vlib.AuUser("USER_END", vlib.BaseTSms+int64(seq), seq, pid, sid, "PAM:session_close", "success")
			offer:
				select {
				case audits <- l:
				case <-stopFeed:
					return
				case <-time.After(20 * time.Millisecond):
					// the producer is not the one being cancelled: it goes on offering
					// lines and gives up only when nobody has taken one for 20 ms
					if atomic.LoadInt32(&cancelled) == 1 || time.Since(feedStart) > 2*c13Watch {
						return
					}
					goto offer
				}
			}
		}()
		deadline := time.Now().Add(c13Watch)
		want := 20 + i%50
		for rec.Len() < want && time.Now().Before(deadline) {
			time.Sleep(50 * time.Microsecond)
		}
		if rec.Len() < want {
			out.inconclusive(sig + ": stream did not produce events")
			close(stopFeed)
			return
		}
	} else if sc.State == "cancelled-before-start" {
		close(feedDone)
	} else {
		close(feedDone)
		if !waitParked("auditd.(*Auditd).Read", "select", c13Watch) {
			out.inconclusive(sig + ": Read not seen parked in select")
			return
		}
	}
	out.add("states_reached", 1)
	out.class("read|" + sc.State)
	if sc.State == "idle" {
		c13Dwell(i, out)
	}
	t0 := time.Now()
	atomic.StoreInt32(&cancelled, 1)
	atCancel := rec.Len()
	cancel()
	select {
	case <-done: // any return value is acceptable after cancellation
	case <-time.After(c13After):
		stuck, why := classifyStacks(vlib.AllStacks(), "auditd.(*Auditd).Read")
		stuckTotal++
		// Not parked but still at work: decided by logical progress, not by the
		// clock. A worker that looks at its context between two records takes a
		// few more at most (each look has an even chance of seeing the
		// cancellation first); hundreds of records later it is not looking.
		if more := rec.Len() - atCancel; !stuck && more > 300 {
			close(stopFeed)
			out.violation(sig+":keeps-consuming-after-cancel", fmt.Sprintf("Read has not returned %s after cancel() and has written %d more events since: it goes on consuming its input (%s)", c13After, more, why), wit)
			return
		}
		if stuck {
			out.violation(sig+":stuck-after-cancel", "Read still parked after cancel: "+why, wit)
		} else {
			out.inconclusive(sig + ": no return within the watchdog: " + why)
		}
		return
	}
	stamp := vlib.Tick()
	out.add("cancellations", 1)
	out.add("max:return_latency_us", int(time.Since(t0).Microseconds()))
	<-feedDone // the feeder gives up once nobody has taken a line for 20 ms
	time.Sleep(time.Millisecond)
	late := 0
	for _, c := range rec.Calls() {
		if c.Seq > stamp {
			late++
		}
	}
	out.add("events_before_return", rec.Len()-late)
	if late > 0 {
		out.violation(sig+":delivery-after-return", fmt.Sprintf("%d events were written after Read had returned", late), wit)
	}
}

// c13ReadExpiring: records of a correlated session whose terminating record
// never arrives are flushed by the reassembler's maintenance goroutine once
// they expire (2 s). The event writer is held while that flush is under way
// and the context is cancelled: Read may only return once the flush is over -
// nothing may be written after the return.
func c13ReadExpiring(i int, sc c13Scenario, out *childOut) {
	rec := vlib.NewRec()
	rec.Entered = make(chan struct{}, 64)
	audits := make(chan string)
	logins := make(chan common.RemoteUserLogin)
	a := auditd.Auditd{Audits: audits, Logins: logins, EventW: rec.Writer(), Health: health.NewHealth()}
	ctx, cancel := context.WithCancel(context.Background())
	defer cancel()
	if sc.State == "cancelled-before-start" {
		cancel()
	}
	done := make(chan error, 1)
	go func() { done <- a.Read(ctx) }()
	sig := "C13:read:" + sc.State
	wit := map[string]any{"index": i, "scenario": sc}
	pid := 43000 + i%1000
	sid := strconv.Itoa(900 + i%90)
	give := func(f func() bool) bool {
		ok := make(chan bool, 1)
		go func() { ok <- f() }()
		select {
		case v := <-ok:
			return v
		case <-time.After(c13Watch):
			return false
		}
	}
	okSetup := give(func() bool {
		logins <- common.RemoteUserLogin{Source: identityEvent(2, pid, time.Now().UTC()), PID: pid, CredUserID: "c"}
		logins <- common.RemoteUserLogin{Source: identityEvent(9999, 3999996, time.Now().UTC()), PID: 3999996, CredUserID: "s"}
		audits <- vlib.AuLogin(vlib.BaseTSms, 10, strconv.Itoa(pid), sid)
		const K = 5
		for k := 0; k < K; k++ {
			ls := vlib.ExecSpec{TSms: vlib.BaseTSms + int64(20+k), Seq: uint32(20 + k), PID: pid + 1, Ses: sid, Success: "yes", Exe: "/usr/bin/ls", Args: []string{"ls", strconv.Itoa(k)}, Cwd: "/"}.Lines()
			for _, l := range ls[:len(ls)-1] { // without the terminating PROCTITLE: the event stays open
				audits <- l
			}
		}
		return true
	})
	if !okSetup {
		out.inconclusive(sig + ": Read did not accept the set-up")
		return
	}
	// the LOGIN record's own emission
	select {
	case <-rec.Entered:
	case <-time.After(c13Watch):
		out.inconclusive(sig + ": the LOGIN record was not emitted")
		return
	}
	rec.Hold()
	// the maintenance goroutine starts flushing the expired events (after ~2-2.5 s)
	select {
	case <-rec.Entered:
	case <-time.After(c13Watch):
		out.inconclusive(sig + ": no expired event was flushed within the watchdog")
		rec.Release()
		return
	}
	out.add("states_reached", 1)
	out.class("read|" + sc.State)
	cancel()
	var stamp int64
	select {
	case <-done:
		stamp = vlib.Tick() // returned although the flush is still under way
	case <-time.After(300 * time.Millisecond):
	}
	rec.Release()
	if stamp == 0 {
		select {
		case <-done:
			stamp = vlib.Tick()
		case <-time.After(c13Watch):
			stuck, why := classifyStacks(vlib.AllStacks(), "auditd.(*Auditd).Read")
			if stuck {
				out.violation(sig+":stuck-after-cancel", "Read still parked after cancel and release of the writer: "+why, wit)
			} else {
				out.inconclusive(sig + ": no return within the watchdog: " + why)
			}
			return
		}
	}
	out.add("cancellations", 1)
	time.Sleep(20 * time.Millisecond)
	late := 0
	for _, c := range rec.Calls() {
		if c.Seq > stamp {
			late++
		}
	}
	out.add("expired_events_flushed", rec.Len()-1)
	if late > 0 {
		out.violation(sig+":delivery-after-return", fmt.Sprintf("%d expired events were written after Read had returned", late), wit)
	}
}

func checkC13(r *vlib.Run) int {
	n := len(c13Scenarios()) * r.Pick(50, 1000)
	res := runChildren(r, "mon-race", "c13", n, (n+15)/16, 20*time.Minute)
	r.Set("scenarios", len(c13Scenarios()))
	r.Set("states_reached", res.stats["states_reached"])
	r.Set("cancellations_returned", res.stats["cancellations"])
	r.Set("cancellations_after_a_long_stay_in_the_state", res.stats["cancellations_after_a_long_stay_in_the_state"])
	r.Require(res.stats["cancellations_after_a_long_stay_in_the_state"] >= 20, "too few cancellations after a long stay in the blocking state")
	r.Set("max_return_latency_us_informational", res.stats["max:return_latency_us"])
	r.Set("events_before_return_in_busy_read", res.stats["events_before_return"])
	r.Set("expired_events_flushed_by_maintenance", res.stats["expired_events_flushed"])
	r.Set("worker_state_combinations_reached", res.distinct.Keys())
	r.Set("build", "-race")
	r.Require(res.distinct.Len() == len(c13Scenarios()), fmt.Sprintf("only %d of %d worker/state combinations were reached", res.distinct.Len(), len(c13Scenarios())))
	r.Assumptions = []string{"each blocking state is confirmed from the goroutine dump before cancel() is called; a worker that has not returned after the watchdog is a violation only if it is parked, otherwise inconclusive",
		"'blocked because the output writer is held' is not among the states the statement lists and is not injected"}
	_ = strings.Join
	return r.Finish(n, res.distinct.Len(), "worker x blocking state x downstream capacity: {namedpipe, syslog, auditlog ingester} x {waiting for a writer, idle pipe, mid-record}; syslog ingester with the login hand-off blocked; auditlog ingester with the downstream channel full and the consumer stopped, capacities {0,1,16,10000}, and empty with a running consumer; Auditd.Read idle, under a continuous stream, and while its maintenance goroutine flushes expired events into a held writer (deliveries after the return are counted by logical clock); distinct = states actually reached")
}
