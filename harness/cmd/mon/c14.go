package main

import (
	"context"
	"encoding/json"
	"fmt"
	"reflect"
	"strconv"
	"strings"
	"time"

	"github.com/elastic/go-libaudit/v2/aucoalesce"
	"github.com/elastic/go-libaudit/v2/auparse"

	"github.com/metal-toolbox/audito-maldito/internal/common"
	"github.com/metal-toolbox/audito-maldito/internal/health"
	"github.com/metal-toolbox/audito-maldito/processors/auditd"
	"github.com/metal-toolbox/audito-maldito/verif/vlib"
)

func init() {
	register("C14", "exploration", checkC14)
	childEntries["c14"] = childC14
}

// auGroup is one generated kernel event (one or several records).
type auGroup struct {
	Lines   []string
	TSms    int64
	Kind    string // record type of the first record
	ResTok  string // literal result token, "" when absent
	Success bool   // result as the generator means it
	HasArgs bool
	NArgs   int
}

var userTypes = []string{"USER_START", "USER_END", "CRED_ACQ", "CRED_REFR", "USER_LOGIN", "USER_ACCT", "USER_CMD", "USER_AUTH", "USER_ERR",
	"USER_LOGOUT", "USER_CHAUTHTOK", "USER_ROLE_CHANGE", "USER_MGMT", "SERVICE_START", "SERVICE_STOP"}

func genGroup(r *vlib.Rng, tsms int64, seq uint32, pid int, ses string, allowCD bool) auGroup {
	g := auGroup{TSms: tsms}
	switch r.Intn(11) {
	case 10: // compound event whose first record is not the SYSCALL record (auditctl, SELinux, netfilter, seccomp)
		suc := vlib.PickOne(r, []string{"yes", "no"})
		g.Kind = "LEAD+SYSCALL"
		g.ResTok = suc
		g.Success = suc == "yes"
		hdr := vlib.AuHeader(tsms, seq)
		lead := vlib.PickOne(r, []string{
			fmt.Sprintf("type=CONFIG_CHANGE %s auid=1000 ses=%s op=add_rule key=\"demo\" list=4 res=1", hdr, ses),
			fmt.Sprintf("type=NETFILTER_CFG %s table=filter family=2 entries=4", hdr),
			fmt.Sprintf("type=SECCOMP %s auid=1000 uid=1000 gid=1000 ses=%s pid=%d comm=\"demo\" exe=\"/usr/bin/demo\" sig=31 arch=c000003e syscall=2 compat=0 ip=0x7f0 code=0x0", hdr, ses, pid+1),
		})
		g.Lines = []string{lead,
			fmt.Sprintf("type=SYSCALL %s arch=c000003e syscall=44 success=%s exit=1084 a0=4 a1=7ffd0a0 a2=43c a3=0 items=0 ppid=4250 pid=%d auid=1000 uid=0 gid=0 euid=0 suid=0 fsuid=0 egid=0 sgid=0 fsgid=0 tty=pts0 ses=%s comm=\"auditctl\" exe=\"/usr/sbin/auditctl\" key=(null)", hdr, suc, pid+1, ses),
			fmt.Sprintf("type=SOCKADDR %s saddr=100000000000000000000000", hdr),
			fmt.Sprintf("type=PROCTITLE %s proctitle=617564697463746C002D77002F6574632F706173737764", hdr)}
	case 0, 1, 2, 3: // user-space record with every result token
		tok := vlib.PickOne(r, []string{"success", "failed", "1", "0", ""})
		g.Kind = vlib.PickOne(r, userTypes)
		g.ResTok = tok
		g.Success = tok == "success" || tok == "1"
		g.Lines = []string{vlib.AuUser(g.Kind, tsms, seq, pid, ses, "PAM:thing", tok)}
	default: // compound syscall event
		suc := vlib.PickOne(r, []string{"yes", "no", ""})
		g.Kind = "SYSCALL"
		g.ResTok = suc
		g.Success = suc == "yes"
		e := vlib.ExecSpec{TSms: tsms, Seq: seq, PID: pid + 1, Ses: ses, Success: suc,
			Exe: vlib.PickOne(r, []string{"/usr/bin/ls", "/usr/bin/cat", "/usr/local/bin/rizin", "/bin/sh"}), Cwd: "/home/someuser", EOE: r.Chance(20), HexArgs: r.Bool()}
		np := r.Intn(3)
		for p := 0; p < np; p++ {
			e.Paths = append(e.Paths, vlib.PickOne(r, []string{"/usr/bin/ls", "/lib64/ld-linux-x86-64.so.2", "/etc/resolv.conf", "/tmp/a b"}))
		}
		if r.Chance(75) {
			n := r.Intn(5)
			if r.Chance(5) {
				n = 40
			}
			e.Args = []string{}
			for a := 0; a < n; a++ {
				e.Args = append(e.Args, vlib.PickOne(r, []string{"ls", "-l", "/etc/passwd", "a b", "--color=auto", "x\"y", strconv.Itoa(a)}))
			}
			g.HasArgs = n > 0
			g.NArgs = n
		}
		g.Lines = e.Lines()
	}
	return g
}

// expectedFrom parses fresh copies of the lines and coalesces them itself.
func expectedFrom(lines []string) (*aucoalesce.Event, error) {
	var msgs []*auparse.AuditMessage
	for _, l := range lines {
		m, err := auparse.ParseLogLine(l)
		if err != nil {
			return nil, err
		}
		msgs = append(msgs, m)
	}
	ev, err := aucoalesce.CoalesceMessages(msgs)
	if err != nil {
		return nil, err
	}
	aucoalesce.ResolveIDs(ev)
	return ev, nil
}

func jsonOf(v any) string {
	b, _ := json.Marshal(v)
	return string(b)
}

func childC14(args []string) {
	_, seed, from, to, out, _ := childArgs(args)
	defer out.finish()
	for i := from; i < to; i++ {
		out.begin(i, "session batch")
		c14Batch(seed, i, out)
	}
}

func c14Batch(seed int64, b int, out *childOut) {
	r := vlib.NewRng(seed, "C14/"+strconv.Itoa(b))
	n := 1 + r.Intn(60)
	if b%17 == 0 {
		n = 500
	}
	pid := 20000 + b%10000
	ses := strconv.Itoa(1000 + b%5000)
	rec := vlib.NewRec()
	audits := make(chan string)
	logins := make(chan common.RemoteUserLogin)
	a := auditd.Auditd{Audits: audits, Logins: logins, EventW: rec.Writer(), Health: health.NewHealth()}
	ctx, cancel := context.WithCancel(context.Background())
	defer cancel()
	done := make(chan error, 1)
	go func() { done <- a.Read(ctx) }()
	login := identityEvent(b%200, pid, time.Now().UTC())
	raw := json.RawMessage(`{"Alg":"ED25519-CERT SHA256","SSHKeySum":"abc"}`)
	login.Data = &raw
	before := jsonOf(login)
	fail := func(what string) {
		out.violation("C14:read-stopped", what, map[string]any{"batch": b})
	}
	sendL := func(l common.RemoteUserLogin) bool {
		select {
		case logins <- l:
			return true
		case err := <-done:
			fail(fmt.Sprint("Read returned early: ", err))
			return false
		}
	}
	// The login arrives either first (events are emitted directly) or after
	// the LOGIN record and `late` record groups (those are held and released
	// by the hold-queue flush, which must render them just as faithfully).
	late := -1
	if b%2 == 1 {
		late = r.Intn(n + 1)
		if late > 40 {
			late = 40
		}
	}
	bindLogin := func() bool {
		return sendL(common.RemoteUserLogin{Source: login, PID: pid, CredUserID: "cred"}) &&
			sendL(common.RemoteUserLogin{Source: identityEvent(9999, 3999999, time.Now().UTC()), PID: 3999999, CredUserID: "s"})
	}
	if late < 0 && !bindLogin() {
		return
	}
	seq := uint32(100)
	groups := map[int64]auGroup{}
	var all []string
	all = append(all, vlib.AuLogin(vlib.BaseTSms, seq, strconv.Itoa(pid), ses))
	loginAfterLine := -1
	for k := 1; k <= n; k++ {
		seq++
		// Kernel timestamps need not grow with delivery order (records of one
		// session written by different CPUs, a stepped clock): adjacent groups
		// swapped in most batches, the whole session backwards in every fifth.
		off := 1 + ((k - 1) ^ 1)
		switch b % 5 {
		case 0:
			off = n + 1 - k
		case 1:
			off = k
		}
		if off != k {
			out.add("groups_with_timestamp_out_of_delivery_order", 1)
		}
		g := genGroup(r, vlib.BaseTSms+int64(off), seq, pid, ses, false)
		groups[g.TSms] = g
		all = append(all, g.Lines...)
		if k == late {
			loginAfterLine = len(all)
		}
	}
	if late == 0 {
		loginAfterLine = 1
	}
	seq++
	all = append(all, vlib.AuUser("USER_ACCT", vlib.BaseTSms+900000, seq, 1, "4294967295", "PAM:accounting", "success")) // barrier
	seq++
	all = append(all, vlib.AuUser("USER_ACCT", vlib.BaseTSms+900001, seq, 1, "4294967295", "PAM:accounting", "success"))
	for i, l := range all {
		if i == loginAfterLine {
			// two barrier records first, so that every line before this point has been pushed
			for k := 0; k < 2; k++ {
				select {
				case audits <- vlib.AuUser("USER_ACCT", vlib.BaseTSms+800000+int64(k), uint32(80000+k), 1, "4294967295", "PAM:accounting", "success"):
				case err := <-done:
					fail(fmt.Sprint("Read returned early: ", err))
					return
				}
			}
			if !bindLogin() {
				return
			}
			out.add("late_login_batches", 1)
			out.add("events_released_from_hold_queue", late+1)
		}
		select {
		case audits <- l:
		case err := <-done:
			fail(fmt.Sprint("Read returned early: ", err))
			return
		}
	}
	// the second barrier line was accepted => the first one and everything before it were pushed
	deadline := time.Now().Add(20 * time.Second)
	for rec.Len() < n+1 && time.Now().Before(deadline) {
		time.Sleep(100 * time.Microsecond)
	}
	calls := rec.Calls()
	out.add("batches", 1)
	out.add("groups_sent", n)
	if n > out.stats["max:emissions_from_one_login"] {
		out.stats["max:emissions_from_one_login"] = len(calls)
	}
	ident := ""
	seenTS := map[int64]int{}
	for _, c := range calls {
		ev := c.Ev
		ts := ev.LoggedAt.UnixMilli()
		seenTS[ts]++
		if seenTS[ts] == 2 {
			out.violation("C14:loggedAt:two-events-with-one-timestamp", fmt.Sprintf("two emitted events carry loggedAt %v although every generated record group has its own timestamp: %s", ev.LoggedAt, c.Snap), map[string]any{"batch": b, "late_login_after_groups": late})
		}
		wit := map[string]any{"batch": b, "emitted": string(c.Snap)}
		if ts == vlib.BaseTSms { // the LOGIN record itself
			if ev.Type != "UserAction" || ev.Component != "auditd" || ev.Metadata.AuditID != ses {
				out.violation("C14:login-record-event", "LOGIN record rendered as "+string(c.Snap), wit)
			}
			continue
		}
		g, ok := groups[ts]
		if !ok {
			out.violation("C14:timestamp", fmt.Sprintf("emitted event with loggedAt %v which is no generated record's timestamp", ev.LoggedAt), wit)
			continue
		}
		wit["lines"] = g.Lines
		exp, err := expectedFrom(g.Lines)
		if err != nil {
			out.inconclusive("oracle could not coalesce its own copy: " + err.Error())
			continue
		}
		out.add("events_compared", 1)
		out.add("kind:"+g.Kind, 1)
		out.add("restok:"+g.ResTok, 1)
		out.class(g.Kind + "|res=" + g.ResTok + "|args=" + strconv.FormatBool(g.HasArgs))
		sig := "C14:" + g.Kind
		if ev.Type != "UserAction" {
			out.violation(sig+":type", "type "+ev.Type, wit)
		}
		if ev.Component != "auditd" {
			out.violation(sig+":component", "component "+ev.Component, wit)
		}
		if !ev.LoggedAt.Equal(exp.Timestamp) {
			out.violation(sig+":loggedAt", fmt.Sprintf("loggedAt %v, record timestamp %v", ev.LoggedAt, exp.Timestamp), wit)
		}
		if ev.Metadata.AuditID != ses || ev.Metadata.AuditID != exp.Session {
			out.violation(sig+":auditId", fmt.Sprintf("auditId %q, session %q", ev.Metadata.AuditID, ses), wit)
		}
		wantOutcome := "failed"
		if g.Success {
			wantOutcome = "succeeded"
		}
		if (exp.Result == "success") != g.Success {
			out.inconclusive(fmt.Sprintf("generator and go-libaudit disagree on the result of token %q", g.ResTok))
		} else if ev.Outcome != wantOutcome {
			out.violation(sig+":outcome:res="+g.ResTok, fmt.Sprintf("outcome %q for result token %q", ev.Outcome, g.ResTok), wit)
		}
		gotExtra := map[string]any{}
		for k, v := range ev.Metadata.Extra {
			gotExtra[k] = v
		}
		gotArgs, hasArgs := gotExtra["process_args"]
		delete(gotExtra, "process_args")
		wantExtra := map[string]any{}
		_ = json.Unmarshal([]byte(jsonOf(map[string]any{"action": exp.Summary.Action, "how": exp.Summary.How, "object": exp.Summary.Object})), &wantExtra)
		// action/how/object must be there with the summarised values; a key the
		// statement does not mention is not this check's business
		extraDiffers := false
		for k, v := range wantExtra {
			if g, ok := gotExtra[k]; !ok || !reflect.DeepEqual(g, v) {
				extraDiffers = true
			}
		}
		if extraDiffers {
			out.violation(sig+":summary", fmt.Sprintf("metadata.extra %s, summary of the record group %s", jsonOf(gotExtra), jsonOf(wantExtra)), wit)
		}
		if len(exp.Process.Args) > 0 {
			out.add("events_with_args", 1)
			if !hasArgs || jsonOf(gotArgs) != jsonOf(exp.Process.Args) {
				out.violation(sig+":process_args-missing-or-wrong", fmt.Sprintf("process_args %s, event has %s", jsonOf(gotArgs), jsonOf(exp.Process.Args)), wit)
			}
			if len(exp.Process.Args) != g.NArgs {
				out.inconclusive("generator and go-libaudit disagree on the argument count")
			}
		} else {
			out.add("events_without_args", 1)
			// an empty or null list claims no arguments; anything else is invented
			if hasArgs && jsonOf(gotArgs) != "null" && jsonOf(gotArgs) != "[]" {
				out.violation(sig+":process_args-present-without-args", "process_args "+jsonOf(gotArgs), wit)
			}
		}
		// identity: equals the login's, identical across the session
		id := jsonOf(ev.Subjects) + jsonOf(ev.Source) + jsonOf(ev.Target)
		if ident == "" {
			ident = id
			want := jsonOf(login.Subjects) + jsonOf(login.Source) + jsonOf(login.Target)
			if id != want {
				out.violation("C14:identity-differs-from-login", id+" vs login "+want, wit)
			}
		} else if id != ident {
			out.violation("C14:identity-changes-within-session", id+" vs earlier "+ident, wit)
		}
		// aliasing: mutating the emitted copy must not reach the stored login
		if c.Ptr != nil && c.Ptr.Subjects != nil {
			c.Ptr.Subjects["verif-mutation"] = "x"
		}
	}
	if after := jsonOf(login); after != before {
		out.violation("C14:stored-login-altered", fmt.Sprintf("login event before %s, after %d emissions %s", before, len(calls), after), map[string]any{"batch": b})
	}
	if len(calls) < n+1 {
		out.add("groups_not_emitted", n+1-len(calls))
	}
	if b%31 == 0 && len(calls) > 1 {
		out.sample(map[string]any{"lines": groups[calls[1].Ev.LoggedAt.UnixMilli()].Lines, "emitted": json.RawMessage(calls[1].Snap)})
	}
}

func checkC14(r *vlib.Run) int {
	n := r.Pick(400, 12000)
	res := runChildren(r, "mon", "c14", n, (n+31)/32, 15*time.Minute)
	kinds, toks := map[string]int{}, map[string]int{}
	for k, v := range res.stats {
		if strings.HasPrefix(k, "kind:") {
			kinds[k[5:]] = v
		}
		if strings.HasPrefix(k, "restok:") {
			toks["'"+k[7:]+"'"] = v
		}
	}
	r.Set("events_compared", res.stats["events_compared"])
	r.Set("per_record_type", kinds)
	r.Set("per_result_token", toks)
	r.Set("events_with_args", res.stats["events_with_args"])
	r.Set("events_without_args", res.stats["events_without_args"])
	r.Set("max_emissions_from_one_login", res.stats["max:emissions_from_one_login"])
	r.Set("groups_sent", res.stats["groups_sent"])
	r.Set("late_login_batches", res.stats["late_login_batches"])
	r.Set("groups_with_timestamp_out_of_delivery_order", res.stats["groups_with_timestamp_out_of_delivery_order"])
	r.Set("events_released_from_hold_queue", res.stats["events_released_from_hold_queue"])
	r.Set("groups_not_emitted_c15s_subject", res.stats["groups_not_emitted"])
	r.Require(res.stats["events_compared"] >= res.stats["groups_sent"]*95/100, "fewer than 95% of the generated groups were emitted and compared")
	r.Require(len(toks) >= 7, "not every result token exercised")
	r.Require(res.stats["groups_with_timestamp_out_of_delivery_order"] > res.stats["groups_sent"]/3, "too few groups with a timestamp out of delivery order")
	r.Require(res.stats["events_released_from_hold_queue"] > 500, "too few events went through the hold-queue flush")
	r.Require(res.stats["events_with_args"] > 100 && res.stats["events_without_args"] > 100, "argument presence not exercised both ways")
	r.Assumptions = []string{"the expected summary is computed by go-libaudit's aucoalesce on fresh copies of the same lines (coalescing mutates the parsed message's cached map); the expected outcome comes from the generator's token and is cross-checked with go-libaudit",
		"whether every group is emitted is C15's subject; here at least 95% must have been compared"}
	return r.Finish(res.stats["events_compared"], res.distinct.Len(), "sessions with a bound login and 1-500 record groups each (user-space records of nine types with res=success/failed/1/0/absent; compound SYSCALL+EXECVE+CWD+PATH+PROCTITLE|EOE with success=yes/no/absent, 0-40 arguments, hex-encoded arguments) through Auditd.Read; each emitted UserAction compared with the coalesced fresh copy; distinct = record type x result token x has-arguments")
}
