package main

import (
	"fmt"
	"os"
	"runtime"
	"strconv"
	"strings"
	"sync"
	"sync/atomic"
	"time"

	"go.uber.org/zap"

	"github.com/metal-toolbox/audito-maldito/internal/common"
	"github.com/metal-toolbox/audito-maldito/processors/auditd"
	"github.com/metal-toolbox/audito-maldito/processors/auditd/sessiontracker"

	"github.com/metal-toolbox/audito-maldito/verif/vlib"
)

func init() {
	register("C01", "exploration", checkC01)
	register("C02", "exploration", checkC02)
	register("C04", "exploration", checkC04)
	register("C09", "exploration", checkC09)
	register("C16", "exploration", checkC16)
}

var nWorkers = func() int {
	n := runtime.NumCPU()
	if n > 16 {
		n = 16
	}
	if n < 2 {
		n = 2
	}
	return n
}()

// parallelDo runs f(i) for i in [0,n) on the worker pool.
// stallAfter: how long nothing may complete before the stall monitor looks at the stacks.
var stallAfter = func() time.Duration {
	if v, err := strconv.Atoi(os.Getenv("VERIF_STALL_S")); err == nil && v > 0 {
		return time.Duration(v) * time.Second
	}
	return 4 * time.Minute
}()

func parallelDo(n int, f func(i int)) {
	var wg sync.WaitGroup
	var next int64 = -1
	var completed int64
	for w := 0; w < nWorkers; w++ {
		wg.Add(1)
		go func() {
			defer wg.Done()
			for {
				i := int(atomic.AddInt64(&next, 1))
				if i >= n {
					return
				}
				f(i)
				atomic.AddInt64(&completed, 1)
			}
		}()
	}
	finished := make(chan struct{})
	go func() { wg.Wait(); close(finished) }()
	// Stall monitor: code under test that deadlocks inside an in-process call
	// (no child process, no watchdog of its own) would otherwise hang the check
	// for good. Nothing completed for four minutes AND goroutines of the code
	// under test parked on a lock: reported as a deadlock, the process ends.
	last, lastChange := int64(-1), time.Now()
	for {
		select {
		case <-finished:
			return
		case <-time.After(5 * time.Second):
		}
		if c := atomic.LoadInt64(&completed); c != last {
			last, lastChange = c, time.Now()
			continue
		}
		if time.Since(lastChange) < stallAfter || currentRun == nil {
			continue
		}
		var locked []string
		for _, g := range parseDump(vlib.AllStacks()) {
			if (g.State == "sync.Mutex.Lock" || g.State == "semacquire" || g.State == "sync.RWMutex.Lock" || g.State == "sync.RWMutex.RLock") && g.has("github.com/metal-toolbox/audito-maldito/") {
				for _, fr := range g.Frames {
					if strings.Contains(fr, "github.com/metal-toolbox/audito-maldito/") && !strings.Contains(fr, "audito-maldito/verif/") {
						locked = append(locked, g.State+" in "+fr)
						break
					}
				}
			}
		}
		if len(locked) == 0 {
			lastChange = time.Now() // slow, not locked up: keep waiting
			continue
		}
		currentRun.Violation(currentRun.Prop+":delivery-deadlocked", fmt.Sprintf("no in-process execution completed for "+stallAfter.String()+"; %d goroutines of the code under test are parked on a lock, e.g. %s", len(locked), locked[0]), map[string]any{"parked": locked})
		fmt.Printf("SUMMARY property=%s tier=%s deadlock in the code under test: the run cannot continue\n", currentRun.Prop, currentRun.Tier)
		os.Exit(1)
	}
}

// corrStats aggregates what the correlator monitors observed.
type corrStats struct {
	mu            sync.Mutex
	histories     int
	ops           int
	userActions   int
	correlated    int // sessions with both halves delivered
	multiPending  int // histories with >= 2 sessions pending at once
	flushGE2      int // flushes of a hold queue with >= 2 events
	maxOpen       int
	otherClass    map[string]int
	shapes        *vlib.Distinct
	uncorrSent    map[string]int
	splitCoverage map[string]int // "len:split" -> count
	inconclusive  int
}

func newCorrStats() *corrStats {
	return &corrStats{otherClass: map[string]int{}, shapes: vlib.NewDistinct(), uncorrSent: map[string]int{}, splitCoverage: map[string]int{}}
}

// account derives coverage facts from an executed history.
func (st *corrStats) account(plan Plan, ops []HOp, res *histResult) {
	ua := 0
	flush := 0
	for _, e := range res.emitted {
		ua += len(e)
		if len(e) >= 3 {
			flush++
		}
	}
	// sessions pending at once / open at once
	recAt := map[int]int{}
	loginAt := map[int]int{}
	nev := map[int]int{}
	split := map[int]int{}
	unc := map[string]int{}
	for i, o := range ops {
		switch o.Kind {
		case opRec:
			if _, ok := recAt[o.K]; !ok {
				recAt[o.K] = i
			}
		case opLogin:
			loginAt[o.K] = i
			split[o.K] = nev[o.K]
		case opEv, opCD, opExec:
			if _, ok := recAt[o.K]; ok {
				nev[o.K]++
			}
		case opNoSess, opUnset, opUnknown, opStartOpen:
			unc[o.Kind]++
		}
	}
	corr := 0
	maxPend, maxOpen := 0, 0
	for i := range ops {
		pend, open := 0, 0
		for k, r := range recAt {
			l, ok := loginAt[k]
			if r <= i {
				open++
				if !ok || l > i {
					pend++
				}
			}
		}
		if pend > maxPend {
			maxPend = pend
		}
		if open > maxOpen {
			maxOpen = open
		}
	}
	for k := range recAt {
		if _, ok := loginAt[k]; ok {
			corr++
		}
	}
	shape := make([]byte, 0, len(ops))
	for _, o := range ops {
		shape = append(shape, kindCode[o.Kind], byte('0'+o.K%10), byte('0'+(o.Cut+2)%10))
	}
	st.mu.Lock()
	st.histories++
	st.ops += len(ops)
	st.userActions += ua
	st.correlated += corr
	st.flushGE2 += flush
	if maxPend >= 2 {
		st.multiPending++
	}
	if maxOpen > st.maxOpen {
		st.maxOpen = maxOpen
	}
	for k, v := range unc {
		st.uncorrSent[k] += v
	}
	for k, l := range loginAt {
		if _, ok := recAt[k]; ok {
			sp := split[k]
			if l < recAt[k] {
				sp = -1
			}
			st.splitCoverage[fmt.Sprintf("%d:%d", nev[k], sp)]++
		}
	}
	st.mu.Unlock()
	st.shapes.AddHash(shape)
}

var kindCode = map[string]byte{opLogin: 'L', opRec: 'R', opEv: 'e', opCD: 'D', opClean: 'C', opNoSess: 'n', opUnset: 'u', opUnknown: 'k', opStartOpen: 's', opExec: 'x'}

type corrCfg struct {
	class       string // which property's findings are reported
	exhaustLen  [2]int // quick, thorough
	exhaustSess int
	extras      []HOp
	randAPI     [2]int
	randRaw     [2]int
	ropts       func(rng *vlib.Rng) randOpts
	reuse       bool
}

func reportFindings(r *vlib.Run, st *corrStats, class string, fs []finding, plan Plan, ops []HOp, level string) {
	for _, f := range fs {
		if f.Class != class {
			st.mu.Lock()
			st.otherClass[f.Class]++
			st.mu.Unlock()
			continue
		}
		r.Violation(class+":"+level+":"+f.Sig, f.What+" | history: "+histString(ops), map[string]any{
			"level": level, "plan": plan, "ops": ops, "history": histString(ops), "finding": f.What})
	}
}

func runCorr(r *vlib.Run, cfg corrCfg) (*corrStats, int) {
	st := newCorrStats()
	ti := 0
	if r.Thorough() {
		ti = 1
	}
	evals := 0
	// (a) exhaustive, correlator API
	if cfg.exhaustLen[ti] > 0 {
		plan := mkPlan(cfg.exhaustSess)
		var total int64
		parallelDo(nWorkers*4, func(sh int) {
			c := enumHistories(cfg.exhaustSess, cfg.exhaustLen[ti], cfg.extras, sh, nWorkers*4, func(ops []HOp) {
				res := apiExec{}.run(plan, ops)
				fs := checkHistory(plan, ops, res, false)
				st.account(plan, ops, res)
				if len(fs) > 0 {
					reportFindings(r, st, cfg.class, fs, plan, ops, "api-exhaustive")
				}
			})
			atomic.AddInt64(&total, int64(c))
		})
		r.Set("exhaustive_api_histories", int(total))
		r.Set("exhaustive_api_length", cfg.exhaustLen[ti])
		r.Set("exhaustive", true)
		evals += int(total)
	}
	// (b) seeded random, correlator API
	nra := cfg.randAPI[ti]
	parallelDo(nra, func(i int) {
		rng := vlib.NewRng(r.Seed, fmt.Sprintf("%s/api/%d", r.Prop, i))
		plan, ops := randHistory(rng, cfg.ropts(rng))
		res := apiExec{debugLog: i%2 == 1}.run(plan, ops) // every other history at debug log level
		fs := checkHistory(plan, ops, res, false)
		st.account(plan, ops, res)
		if i < 2 {
			r.Sample(map[string]any{"level": "api-random", "history": histString(ops)})
		}
		if len(fs) > 0 {
			reportFindings(r, st, cfg.class, fs, plan, ops, "api-random")
		}
	})
	r.Set("random_api_histories", nra)
	evals += nra
	// (c) seeded random through Auditd.Read (parser + reassembler + Read loop);
	// this phase runs with the package-level loggers at debug level
	auditd.SetLogger(debugLogger())
	defer auditd.SetLogger(nopLogger())
	nrr := cfg.randRaw[ti]
	var rawDone int64
	parallelDo(nrr, func(i int) {
		rng := vlib.NewRng(r.Seed, fmt.Sprintf("%s/raw/%d", r.Prop, i))
		o := cfg.ropts(rng)
		o.exec = true
		o.cleanups = "" // cleanup is not reachable at this level
		if o.nsess > 5 {
			o.nsess = 5
		}
		plan, ops := randHistory(rng, o)
		var res *histResult
		var err error
		for attempt := 0; attempt < 3; attempt++ {
			res, err = rawExec{}.run(plan, ops)
			if err != errInconclusiveTick {
				break
			}
		}
		if err == errInconclusiveTick {
			st.mu.Lock()
			st.inconclusive++
			st.mu.Unlock()
			return
		}
		if err != nil {
			r.Violation(cfg.class+":raw:read-stopped", fmt.Sprintf("%v | history: %s", err, histString(ops)),
				map[string]any{"level": "raw", "plan": plan, "ops": ops, "error": err.Error()})
			return
		}
		atomic.AddInt64(&rawDone, 1)
		fs := checkHistory(plan, ops, res, false)
		st.account(plan, ops, res)
		if i < 1 {
			r.Sample(map[string]any{"level": "raw-random", "history": histString(ops)})
		}
		if len(fs) > 0 {
			reportFindings(r, st, cfg.class, fs, plan, ops, "raw-random")
		}
	})
	r.Set("random_raw_histories", int(rawDone))
	evals += int(rawDone)
	if st.inconclusive > 0 {
		r.Inconclusive(fmt.Sprintf("%d raw-level histories overlapped a reassembler maintenance tick three times in a row", st.inconclusive))
	}
	r.Set("operations", st.ops)
	r.Set("user_actions_checked", st.userActions)
	r.Set("sessions_with_both_halves", st.correlated)
	r.Set("histories_with_2plus_sessions_pending", st.multiPending)
	r.Set("hold_queue_flushes_of_2plus_events", st.flushGE2)
	r.Set("max_sessions_open_at_once", st.maxOpen)
	r.Set("findings_of_other_properties_seen_not_reported_here", st.otherClass)
	return st, evals
}

func stdExtras() []HOp {
	return []HOp{{Kind: opClean, Cut: cutAll}, {Kind: opClean, Cut: cutNone}}
}

func checkC01(r *vlib.Run) int {
	cfg := corrCfg{class: "C01", exhaustLen: [2]int{7, 8}, exhaustSess: 2, extras: stdExtras(),
		randAPI: [2]int{3000, 100000}, randRaw: [2]int{200, 5000},
		ropts: func(rng *vlib.Rng) randOpts {
			return randOpts{nsess: 3 + rng.Intn(6), maxEvents: 12, cleanups: "mixed"}
		}}
	st, evals := runCorr(r, cfg)
	r.Require(st.userActions > 1000, "fewer than 1000 UserActions observed")
	r.Require(st.maxOpen >= 3, "never had 3 sessions open at once")
	daemonCorrelation(r, "C01")
	r.Assumptions = []string{"identities, session ids and PIDs are unique per history (reuse is C09)",
		"raw-level histories complete before the first 500 ms reassembler maintenance tick (otherwise retried, then inconclusive)"}
	return r.Finish(evals, st.shapes.Len(), "histories of logins/LOGIN records/events/credential disposals/cleanups: all sequences of the stated length over 2 sessions (every prefix checked), plus seeded random multi-session histories at the tracker API and through Auditd.Read; distinct = distinct operation-kind sequences; non-trivial = at least one session had both halves delivered")
}

func checkC02(r *vlib.Run) int {
	cfg := corrCfg{class: "C02", exhaustLen: [2]int{7, 8}, exhaustSess: 2, extras: []HOp{{Kind: opClean, Cut: cutNone}},
		randAPI: [2]int{4000, 150000}, randRaw: [2]int{300, 6000},
		ropts: func(rng *vlib.Rng) randOpts {
			return randOpts{nsess: 1 + rng.Intn(4), maxEvents: 6, cleanups: "none"}
		}}
	st, evals := runCorr(r, cfg)
	// split-point matrix: every (session length n<=6, login position) must have been seen
	missing := []string{}
	for n := 0; n <= 6; n++ {
		for sp := -1; sp <= n; sp++ {
			if st.splitCoverage[fmt.Sprintf("%d:%d", n, sp)] == 0 {
				missing = append(missing, fmt.Sprintf("%d:%d", n, sp))
			}
		}
	}
	r.Set("split_points_covered", len(st.splitCoverage))
	r.Set("split_points_missing_for_len_le_6", missing)
	r.Require(len(missing) == 0, fmt.Sprintf("split points never exercised: %v", missing))
	// concurrent delivery: the session's events come from one goroutine (as
	// from the parser), the login from another at a random moment, with
	// delays injected at the hooked lock sites; the emitted list must still be
	// the delivered list, once each, in order.
	nConc := r.Pick(3000, 100000)
	common.VerifLockHook = perturbHook(r.Seed)
	var concBad int64
	parallelDo(nConc, func(i int) {
		rng := vlib.NewRng(r.Seed, "C02/conc/"+strconv.Itoa(i))
		plan := mkPlan(1)
		n := 3 + rng.Intn(8)
		rec := vlib.NewRec()
		rec.NoGid = true
		var lg *zap.SugaredLogger
		if i%2 == 1 {
			lg = debugLogger()
		}
		tr := sessiontracker.NewSessionTracker(rec.Writer(), lg)
		spin := rng.Intn(4000)
		var wg sync.WaitGroup
		wg.Add(2)
		go func() {
			defer wg.Done()
			_ = applyOp(tr, plan, HOp{Kind: opRec, K: 0}, 0)
			for e := 1; e <= n; e++ {
				_ = applyOp(tr, plan, HOp{Kind: opEv, K: 0}, e)
			}
		}()
		go func() {
			defer wg.Done()
			x := 0
			for k := 0; k < spin; k++ {
				x += k
			}
			_ = x
			_ = applyOp(tr, plan, HOp{Kind: opLogin, K: 0}, 1000)
		}()
		wg.Wait()
		var got []int
		for _, c := range rec.Calls() {
			got = append(got, int(c.Ev.LoggedAt.UnixMilli()-vlib.BaseTSms))
		}
		ok := len(got) == n+1
		for k := range got {
			ok = ok && got[k] == k
		}
		if !ok && atomic.AddInt64(&concBad, 1) <= 50 {
			r.Violation("C02:concurrent:order-or-count", fmt.Sprintf("(rec;ev x%d) || login: emitted event numbers %v, delivered 0..%d in order", n, got, n), map[string]any{"events": n, "emitted": got})
		}
	})
	common.VerifLockHook = nil
	evals += nConc
	r.Set("concurrent_delivery_runs", nConc)
	r.Require(st.flushGE2 > 100, "fewer than 100 hold-queue flushes with >= 2 events")
	r.Require(st.multiPending > 100, "fewer than 100 histories with two sessions pending at once")
	daemonCorrelation(r, "C02")
	r.Assumptions = []string{"order is the order of delivery to the correlator; through Auditd.Read this equals line order because every history finishes before the first maintenance tick",
		"events after a session's credential-disposal record are removed from both expected and observed lists (left unspecified by C04)"}
	return r.Finish(evals, st.shapes.Len(), "as C01 with the login placed at every split point of its session's events, 1-4 sessions pending at once; distinct = distinct operation-kind sequences")
}

func checkC04(r *vlib.Run) int {
	extras := []HOp{{Kind: opClean, Cut: cutAll}, {Kind: opNoSess}, {Kind: opUnset}, {Kind: opUnknown, K: 0}, {Kind: opStartOpen, K: 0}, {Kind: opStartOpen, K: 1}}
	cfg := corrCfg{class: "C04", exhaustLen: [2]int{6, 7}, exhaustSess: 2, extras: extras,
		randAPI: [2]int{4000, 150000}, randRaw: [2]int{300, 6000},
		ropts: func(rng *vlib.Rng) randOpts {
			return randOpts{nsess: 2 + rng.Intn(5), maxEvents: 8, cleanups: "mixed", uncorrelated: true}
		}}
	st, evals := runCorr(r, cfg)
	// last clause of the statement: whatever is emitted after a session's
	// CRED_DISP carries that session's own identity - a foreign identity can
	// only get there through PID reuse, so the reuse histories run here too.
	jobs := reuseJobs(vlib.NewDistinct())
	var postEnd int64
	parallelDo(len(jobs), func(i int) {
		res := apiExec{}.run(jobs[i].plan, jobs[i].ops)
		for _, e := range res.emitted {
			atomic.AddInt64(&postEnd, int64(len(e)))
		}
		if fs := checkHistory(jobs[i].plan, jobs[i].ops, res, true); len(fs) > 0 {
			reportFindings(r, st, "C04", fs, jobs[i].plan, jobs[i].ops, "api-reuse")
		}
	})
	evals += len(jobs)
	r.Set("pid_reuse_histories_for_the_post_end_clause", len(jobs))
	r.Set("uncorrelated_events_delivered", st.uncorrSent)
	for _, k := range []string{opNoSess, opUnset, opUnknown, opStartOpen} {
		r.Require(st.uncorrSent[k] > 0, "no "+k+" event was delivered")
	}
	r.Require(st.userActions > 1000, "fewer than 1000 UserActions observed")
	daemonCorrelation(r, "C04")
	r.Assumptions = []string{"the oracle is evaluated after every operation: emissions so far must belong to sessions whose LOGIN record and login were both delivered by then"}
	return r.Finish(evals, st.shapes.Len(), "histories mixing correlated sessions with session-less, unset-session, unknown-session, non-LOGIN-opened, login-less and session-less halves; safety checked after every operation; distinct = distinct operation-kind sequences")
}
