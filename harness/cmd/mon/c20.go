package main

import (
	"context"
	"fmt"
	"io"
	"io/fs"
	"os"
	"path/filepath"
	"reflect"
	"strconv"
	"strings"
	"sync"
	"time"

	"github.com/fsnotify/fsnotify"

	"github.com/metal-toolbox/audito-maldito/processors/auditd/dirreader"
	"github.com/metal-toolbox/audito-maldito/verif/vlib"
)

func init() {
	register("C20", "exploration", checkC20)
	childEntries["c20"] = childC20
}

// ---- in-memory file system ----

type memFile struct {
	mu   sync.Mutex
	data []byte
}

type memFS struct {
	mu    sync.Mutex
	files map[string]*memFile
}

func (m *memFS) Open(p string) (dirreader.VerifFile, error) {
	m.mu.Lock()
	defer m.mu.Unlock()
	f, ok := m.files[p]
	if !ok {
		return nil, &fs.PathError{Op: "open", Path: p, Err: fs.ErrNotExist}
	}
	return &memHandle{f: f, name: filepath.Base(p)}, nil
}

type memHandle struct {
	f    *memFile
	off  int64
	name string
}

func (h *memHandle) Read(p []byte) (int, error) {
	h.f.mu.Lock()
	defer h.f.mu.Unlock()
	if h.off >= int64(len(h.f.data)) {
		return 0, io.EOF
	}
	n := copy(p, h.f.data[h.off:])
	h.off += int64(n)
	return n, nil
}

func (h *memHandle) Seek(off int64, whence int) (int64, error) {
	h.f.mu.Lock()
	defer h.f.mu.Unlock()
	switch whence {
	case io.SeekStart:
		h.off = off
	case io.SeekCurrent:
		h.off += off
	case io.SeekEnd:
		h.off = int64(len(h.f.data)) + off
	}
	return h.off, nil
}

func (h *memHandle) Close() error { return nil }

func (h *memHandle) Stat() (fs.FileInfo, error) {
	h.f.mu.Lock()
	defer h.f.mu.Unlock()
	return memInfo{name: h.name, size: int64(len(h.f.data))}, nil
}

type memInfo struct {
	name string
	size int64
	dir  bool
}

func (i memInfo) Name() string       { return i.name }
func (i memInfo) Size() int64        { return i.size }
func (i memInfo) Mode() fs.FileMode  { return 0o600 }
func (i memInfo) ModTime() time.Time { return time.Time{} }
func (i memInfo) IsDir() bool        { return i.dir }
func (i memInfo) Sys() any           { return nil }

type memEntry struct{ memInfo }

func (e memEntry) Type() fs.FileMode {
	if e.dir {
		return fs.ModeDir
	}
	return 0
}
func (e memEntry) Info() (fs.FileInfo, error) { return e.memInfo, nil }

// ---- histories ----

const (
	dAppend   = "append"   // whole lines
	dPartial  = "partial"  // bytes without newline
	dComplete = "complete" // newline (completes the pending partial, or an empty line)
	dRotate   = "rotate"   // rename + create
	dTruncate = "truncate" // truncate to empty
)

type c20Hist struct {
	NRot      int   // rotated files present at start: audit.log.1 .. audit.log.NRot
	RotNames  []int // explicit suffix list (overrides NRot when set)
	InitLines int   // complete lines in the initial audit.log
	InitTail  bool  // initial audit.log ends with an unterminated tail
	Unrelated bool
	Ops       []string
	LongLines bool
}

func (h c20Hist) String() string {
	return fmt.Sprintf("rot=%d%v init=%d tail=%v long=%v ops=%s", h.NRot, h.RotNames, h.InitLines, h.InitTail, h.LongLines, strings.Join(h.Ops, ","))
}

const c20Dir = "/var/log/audit"

// c20Run executes one history and returns "" or a description of the first
// disagreement between delivered and expected lines.
func c20Run(h c20Hist, r *vlib.Rng) (sig, what string, nlines int, inconclusive string) {
	mfs := &memFS{files: map[string]*memFile{}}
	var entries []os.DirEntry
	var expected []string
	n := 0
	mkLine := func() string {
		n++
		s := "L" + strconv.Itoa(n)
		// the terminating newline is all that is ever removed: whatever else a
		// line ends in (or holds) is part of it
		if r.Chance(25) {
			s += vlib.PickOne(r, []string{"\r", "\r\r", " ", "\t", " \r", "\x00", "\rmid", "  two  ", "\v\f", "\xc3", "é\r"})
		}
		if h.LongLines && r.Chance(30) {
			s += strings.Repeat("x", vlib.PickOne(r, []int{4090, 4096, 4097, 8192, 12288}))
		}
		return s
	}
	sufs := h.RotNames
	if sufs == nil {
		for i := h.NRot; i >= 1; i-- {
			sufs = append(sufs, i)
		}
	}
	// rotated files: the highest number is the oldest
	sorted := append([]int{}, sufs...)
	for i := 0; i < len(sorted); i++ {
		for j := i + 1; j < len(sorted); j++ {
			if sorted[j] > sorted[i] {
				sorted[i], sorted[j] = sorted[j], sorted[i]
			}
		}
	}
	content := map[int][]string{}
	for _, s := range sorted {
		k := 1 + r.Intn(2)
		for i := 0; i < k; i++ {
			l := mkLine()
			content[s] = append(content[s], l)
			expected = append(expected, l)
		}
	}
	// directory listing in a scrambled order (ReadDir order is not the reader's business)
	for _, i := range r.Perm(len(sufs)) {
		s := sufs[i]
		name := "audit.log." + strconv.Itoa(s)
		mfs.files[c20Dir+"/"+name] = &memFile{data: []byte(strings.Join(content[s], "\n") + "\n")}
		entries = append(entries, memEntry{memInfo{name: name}})
	}
	var live []byte
	for i := 0; i < h.InitLines; i++ {
		l := mkLine()
		live = append(live, l...)
		live = append(live, '\n')
		expected = append(expected, l)
	}
	pending := ""
	if h.InitTail {
		pending = "tail" + strconv.Itoa(n)
		live = append(live, pending...)
	}
	liveFile := &memFile{data: live}
	mainPath := c20Dir + "/audit.log"
	mfs.files[mainPath] = liveFile
	entries = append(entries, memEntry{memInfo{name: "audit.log"}})
	if h.Unrelated {
		entries = append(entries, memEntry{memInfo{name: "syslog"}}, memEntry{memInfo{name: "audit.log.d", dir: true}}, memEntry{memInfo{name: "audit.conf"}})
		mfs.files[c20Dir+"/syslog"] = &memFile{data: []byte("not an audit log\n")}
		mfs.files[c20Dir+"/audit.conf"] = &memFile{data: []byte("x\n")}
	}
	ctx, cancel := context.WithCancel(context.Background())
	defer cancel()
	events := make(chan fsnotify.Event)
	rd := dirreader.NewVerifLogDirReader(ctx, c20Dir, entries, mfs, events)
	var got []string
	watchdog := time.After(60 * time.Second)
	// phase 1: initial files
	initDone := rd.InitFilesDone()
	// In every other history the watcher reports a write to the live file while
	// the files present at start are still being read (nothing was written: the
	// event is late news about content that is being read anyway).
	early := events
	if !r.Bool() {
		early = nil
	}
	for initDone != nil {
		select {
		case l := <-rd.Lines():
			got = append(got, l)
		case early <- fsnotify.Event{Name: c20Dir + "/audit.log", Op: fsnotify.Write}:
			early = nil
		case <-initDone:
			initDone = nil
		case <-watchdog:
			return "", "", 0, "initial read did not finish within 60 s"
		}
	}
	cmp := func(stage string) (string, string) {
		if reflect.DeepEqual(got, expected) || (len(got) == 0 && len(expected) == 0) {
			return "", ""
		}
		i := 0
		for i < len(got) && i < len(expected) && got[i] == expected[i] {
			i++
		}
		g, e := "<nothing>", "<nothing>"
		if i < len(got) {
			g = trunc(got[i], 30)
		}
		if i < len(expected) {
			e = trunc(expected[i], 30)
		}
		kind := "wrong-line"
		switch {
		case i >= len(got):
			kind = "line-lost"
		case i >= len(expected):
			kind = "extra-line"
		case contains(expected, got[i]):
			kind = "out-of-order-or-duplicate"
		}
		return stage + ":" + kind, fmt.Sprintf("%s: delivered %d lines, expected %d; first difference at #%d: got %q, expected %q", stage, len(got), len(expected), i, g, e)
	}
	if s, w := cmp("initial-files"); s != "" {
		return s, w, len(got), ""
	}
	// offer sends one event and keeps draining lines meanwhile
	offer := func(ev fsnotify.Event) bool {
		for {
			select {
			case l := <-rd.Lines():
				got = append(got, l)
			case events <- ev:
				return true
			case <-watchdog:
				return false
			}
		}
	}
	barrier := func() bool { return offer(fsnotify.Event{Name: mainPath, Op: fsnotify.Chmod}) }
	set := func(f *memFile, b []byte) {
		f.mu.Lock()
		f.data = b
		f.mu.Unlock()
	}
	appendTo := func(f *memFile, b []byte) {
		f.mu.Lock()
		f.data = append(f.data, b...)
		f.mu.Unlock()
	}
	for i, op := range h.Ops {
		switch op {
		case dAppend:
			k := 1 + r.Intn(3)
			var b []byte
			if pending != "" {
				// the first newline completes the pending partial line
				expected = append(expected, pending)
				pending = ""
				b = append(b, '\n')
				k--
			}
			for j := 0; j < k; j++ {
				l := mkLine()
				b = append(b, l...)
				b = append(b, '\n')
				expected = append(expected, l)
			}
			appendTo(liveFile, b)
			if !offer(fsnotify.Event{Name: mainPath, Op: fsnotify.Write}) {
				return "", "", len(got), "reader stopped accepting events"
			}
		case dPartial:
			p := "P" + strconv.Itoa(i) + "-" + strconv.Itoa(n)
			if h.LongLines && r.Chance(30) {
				p += strings.Repeat("y", 5000)
			}
			pending += p
			appendTo(liveFile, []byte(p))
			if !offer(fsnotify.Event{Name: mainPath, Op: fsnotify.Write}) {
				return "", "", len(got), "reader stopped accepting events"
			}
		case dComplete:
			expected = append(expected, pending)
			pending = ""
			appendTo(liveFile, []byte{'\n'})
			if !offer(fsnotify.Event{Name: mainPath, Op: fsnotify.Write}) {
				return "", "", len(got), "reader stopped accepting events"
			}
		case dRotate:
			mfs.mu.Lock()
			mfs.files[c20Dir+"/audit.log.1"] = liveFile
			liveFile = &memFile{}
			mfs.files[mainPath] = liveFile
			mfs.mu.Unlock()
			pending = "" // the unterminated tail stays in the rotated file
			if !offer(fsnotify.Event{Name: mainPath, Op: fsnotify.Rename}) || !barrier() ||
				!offer(fsnotify.Event{Name: c20Dir + "/audit.log.1", Op: fsnotify.Create}) ||
				!offer(fsnotify.Event{Name: mainPath, Op: fsnotify.Create}) {
				return "", "", len(got), "reader stopped accepting events"
			}
		case dTruncate:
			set(liveFile, nil)
			pending = ""
			if !offer(fsnotify.Event{Name: mainPath, Op: fsnotify.Write}) {
				return "", "", len(got), "reader stopped accepting events"
			}
		}
		if !barrier() {
			return "", "", len(got), "reader stopped accepting events"
		}
		if s, w := cmp(fmt.Sprintf("after-%s", op)); s != "" {
			return s, w + fmt.Sprintf(" (op #%d)", i), len(got), ""
		}
	}
	cancel()
	_ = rd.Wait()
	return "", "", len(got), ""
}

func contains(xs []string, x string) bool {
	for _, y := range xs {
		if y == x {
			return true
		}
	}
	return false
}

var c20OpKinds = []string{dAppend, dPartial, dComplete, dRotate, dTruncate}

func c20Gen(seed int64, tier string, i int) c20Hist {
	// exhaustive part: all operation sequences of length L over the five kinds,
	// for four start-up states
	L := 5
	if tier == "thorough" {
		L = 6
	}
	total := 1
	for k := 0; k < L; k++ {
		total *= len(c20OpKinds)
	}
	starts := []c20Hist{{NRot: 0, InitLines: 0}, {NRot: 2, InitLines: 2}, {NRot: 1, InitLines: 1, InitTail: true}, {NRot: 0, InitLines: 3, Unrelated: true}}
	if i < total*len(starts) {
		h := starts[i/total]
		x := i % total
		for k := 0; k < L; k++ {
			h.Ops = append(h.Ops, c20OpKinds[x%len(c20OpKinds)])
			x /= len(c20OpKinds)
		}
		return h
	}
	i -= total * len(starts)
	// start-up directories of many sizes, incl. two- and three-digit suffixes
	sizes := []int{0, 1, 2, 5, 9, 10, 11, 12, 20, 99, 100, 101, 150, 999, 1000}
	if i < len(sizes)*2 {
		h := c20Hist{NRot: sizes[i/2], InitLines: 2, Unrelated: i%2 == 1, Ops: []string{dAppend, dRotate, dAppend}}
		return h
	}
	i -= len(sizes) * 2
	r := vlib.NewRng(seed, "C20/"+strconv.Itoa(i))
	h := c20Hist{InitLines: r.Intn(4), InitTail: r.Chance(30), Unrelated: r.Chance(30), LongLines: r.Chance(40)}
	switch r.Intn(4) {
	case 0:
		h.NRot = r.Intn(15)
	case 1: // sparse suffixes
		for k := r.Intn(6); k > 0; k-- {
			s := 1 + r.Intn(120)
			dup := false
			for _, e := range h.RotNames {
				dup = dup || e == s
			}
			if !dup {
				h.RotNames = append(h.RotNames, s)
			}
		}
		if h.RotNames == nil {
			h.RotNames = []int{}
		}
	}
	nops := 1 + r.Intn(30)
	if r.Chance(5) {
		nops = 200
	}
	for k := 0; k < nops; k++ {
		h.Ops = append(h.Ops, vlib.PickOne(r, []string{dAppend, dAppend, dAppend, dPartial, dComplete, dRotate, dTruncate}))
	}
	return h
}

func c20ExhaustiveCount(tier string) int {
	L := 5
	if tier == "thorough" {
		L = 6
	}
	total := 4
	for k := 0; k < L; k++ {
		total *= len(c20OpKinds)
	}
	return total
}

func childC20(args []string) {
	tier, seed, from, to, out, rest := childArgs(args)
	defer out.finish()
	if rest[0] == "realfs" {
		for i := from; i < to; i++ {
			out.begin(i, "real fs")
			c20RealFS(seed, i, out)
		}
		return
	}
	for i := from; i < to; i++ {
		h := c20Gen(seed, tier, i)
		out.begin(i, h.String())
		r := vlib.NewRng(seed, "C20run/"+strconv.Itoa(i))
		sig, what, nl, inc := c20Run(h, r)
		if inc != "" {
			// the reader stopped taking events or lines: classify
			stuck, why := classifyStacks(vlib.AllStacks(), "dirreader.(*LogDirReader).loop")
			if stuck {
				out.violation("C20:reader-stuck", inc+": "+why+" | "+h.String(), map[string]any{"index": i, "history": h})
			} else {
				out.inconclusive("C20: " + inc + " (" + why + ")")
			}
			continue
		}
		out.add("histories", 1)
		out.add("lines_compared", nl)
		for _, o := range h.Ops {
			out.add("op:"+o, 1)
		}
		nrot := h.NRot
		if h.RotNames != nil {
			nrot = len(h.RotNames)
		}
		out.class(fmt.Sprintf("rot=%d|tail=%v|ops=%d|long=%v", nrot, h.InitTail, len(h.Ops), h.LongLines))
		out.add("dirsize:"+strconv.Itoa(nrot), 1)
		if sig != "" {
			extra := ""
			if nrot >= 10 && strings.HasPrefix(sig, "initial-files") {
				extra = ":ten-or-more-rotations"
			}
			out.violation("C20:"+sig+extra, what+" | "+h.String(), map[string]any{"index": i, "history": h})
		}
		if i%997 == 0 {
			out.sample(map[string]any{"history": h.String(), "lines_delivered": nl})
		}
	}
}

// c20RealFS checks the start-up order on a real directory with the real
// StartLogDirReader (InitFilesDone is the barrier).
func c20RealFS(seed int64, i int, out *childOut) {
	r := vlib.NewRng(seed, "C20/real/"+strconv.Itoa(i))
	dir, _ := os.MkdirTemp("", "verif-c20-")
	defer os.RemoveAll(dir)
	nrot := []int{0, 1, 4, 9, 10, 11, 25, 100, 101}[i%9]
	var expected []string
	n := 0
	for s := nrot; s >= 1; s-- {
		n++
		l := "R" + strconv.Itoa(n)
		expected = append(expected, l)
		os.WriteFile(filepath.Join(dir, "audit.log."+strconv.Itoa(s)), []byte(l+"\n"), 0o600)
	}
	n++
	expected = append(expected, "R"+strconv.Itoa(n))
	os.WriteFile(filepath.Join(dir, "audit.log"), []byte("R"+strconv.Itoa(n)+"\n"+"unterminated"), 0o600)
	if r.Bool() {
		os.WriteFile(filepath.Join(dir, "other.txt"), []byte("zzz\n"), 0o600)
		os.Mkdir(filepath.Join(dir, "audit.log.dir"), 0o700)
	}
	ctx, cancel := context.WithCancel(context.Background())
	defer cancel()
	rd, err := dirreader.StartLogDirReader(ctx, dir)
	if err != nil {
		out.inconclusive("StartLogDirReader failed: " + err.Error())
		return
	}
	var got []string
	done := rd.InitFilesDone()
	wd := time.After(60 * time.Second)
	for done != nil {
		select {
		case l := <-rd.Lines():
			got = append(got, l)
		case <-done:
			done = nil
		case <-wd:
			out.inconclusive("real-fs initial read did not finish")
			return
		}
	}
	cancel()
	_ = rd.Wait()
	out.add("realfs_dirs", 1)
	out.add("dirsize:"+strconv.Itoa(nrot), 1)
	out.class("realfs|" + strconv.Itoa(nrot))
	if !reflect.DeepEqual(got, expected) {
		extra := ""
		if nrot >= 10 {
			extra = ":ten-or-more-rotations"
		}
		out.violation("C20:realfs:initial-files"+extra, fmt.Sprintf("real directory with %d rotated files: delivered %v, expected %v", nrot, trunc(fmt.Sprint(got), 200), trunc(fmt.Sprint(expected), 200)), map[string]any{"rotations": nrot})
	}
}

func checkC20(r *vlib.Run) int {
	nExh := c20ExhaustiveCount(r.Tier)
	n := nExh + 30 + r.Pick(2000, 280000)
	res := runChildren(r, "mon-race", "c20", n, (n+31)/32, 20*time.Minute, "memfs")
	nReal := r.Pick(27, 270)
	res2 := runChildren(r, "mon-race", "c20", nReal, (nReal+8)/9, 10*time.Minute, "realfs")
	ops := map[string]int{}
	dirs := []string{}
	for k, v := range res.stats {
		if strings.HasPrefix(k, "op:") {
			ops[k[3:]] = v
		}
		if strings.HasPrefix(k, "dirsize:") {
			dirs = append(dirs, k[8:])
		}
	}
	for _, k := range res2.distinct.Keys() {
		res.distinct.Add(k)
	}
	r.Set("exhaustive_operation_sequences", nExh)
	r.Set("exhaustive", true)
	r.Set("histories", res.stats["histories"])
	r.Set("operations_per_kind", ops)
	r.Set("initial_directory_sizes_covered", dirs)
	r.Set("lines_compared", res.stats["lines_compared"])
	r.Set("real_fs_directories", res2.stats["realfs_dirs"])
	r.Set("build", "-race")
	r.Require(res.stats["histories"] >= n*95/100, "too few histories completed")
	r.Require(len(ops) == 5, "not every operation kind exercised")
	r.Assumptions = []string{"every file-system change is followed by its fsnotify event, and that event (plus an ignorable sentinel) is accepted by the reader before the next change",
		"truncation is reported as a Write event, rotation as Rename then Create of the live file",
		"the directory listing contains, besides audit.log[.N], only names that do not start with 'audit.log' (or directories)"}
	return r.Finish(res.stats["histories"]+res2.stats["realfs_dirs"], res.distinct.Len(), "in-memory file system + injected event channel (verif constructor): every operation sequence of the stated length over {append lines, append partial, complete, rotate, truncate} for four start-up states; start-up directories with 0..1000 rotated files (incl. 9,10,11,99,100,101) in scrambled listing order; seeded random histories up to 200 operations with lines beyond 3x the 4096-byte buffer; the real StartLogDirReader on real directories for the start-up order; delivered lines compared with the lines the harness wrote, after every operation; distinct = (directory size, tail, length, long-lines) classes")
}
