package main

import (
	"context"
	"encoding/json"
	"fmt"
	"sort"
	"strings"
	"time"

	"github.com/metal-toolbox/auditevent"
	"github.com/prometheus/client_golang/prometheus"

	"github.com/metal-toolbox/audito-maldito/ingesters/namedpipe"
	"github.com/metal-toolbox/audito-maldito/ingesters/syslog"
	"github.com/metal-toolbox/audito-maldito/internal/common"
	"github.com/metal-toolbox/audito-maldito/internal/health"
	"github.com/metal-toolbox/audito-maldito/internal/metrics"
	"github.com/metal-toolbox/audito-maldito/processors/sshd"
	"github.com/metal-toolbox/audito-maldito/verif/vlib"
)

const (
	vNode = "verif-node"
	vMID  = "verif-machine-id"
)

// sshHarness wires the real sshd processor (and the syslog ingester in front
// of it) to the recorder, a private Prometheus registry and a harness-owned
// logins channel.
type sshHarness struct {
	rec    *vlib.Rec
	reg    *prometheus.Registry
	logins chan common.RemoteUserLogin
	proc   sshd.SshdProcessor
	sli    *syslog.SyslogIngester
	// queuedAtEncode is the largest number of logins found in the channel
	// when an Encode call started (must stay 0: write precedes hand-off).
	queuedAtEncode int
}

func newSshHarness(buf int) *sshHarness {
	h := &sshHarness{rec: vlib.NewRec(), reg: prometheus.NewRegistry(), logins: make(chan common.RemoteUserLogin, buf)}
	h.rec.NoGid = true
	h.rec.Pre = func() {
		if n := len(h.logins); n > h.queuedAtEncode {
			h.queuedAtEncode = n
		}
	}
	pp := metrics.NewPrometheusMetricsProviderForRegisterer(h.reg)
	h.proc = sshd.NewSshdProcessor(context.Background(), h.logins, vNode, vMID, h.rec.Writer(), pp)
	npi := namedpipe.NewNamedPipeIngester(nopLogger(), health.NewHealth())
	sli := syslog.NewSyslogIngester("", h.proc, npi)
	h.sli = &sli
	return h
}

func (h *sshHarness) counters() map[string]float64 {
	out := map[string]float64{}
	mfs, _ := h.reg.Gather()
	for _, mf := range mfs {
		if mf.GetName() != "audito_maldito_remote_logins_total" {
			continue
		}
		for _, m := range mf.GetMetric() {
			var method, outcome string
			for _, l := range m.GetLabel() {
				switch l.GetName() {
				case "method":
					method = l.GetValue()
				case "outcome":
					outcome = l.GetValue()
				}
			}
			out[method+"/"+outcome] = m.GetCounter().GetValue()
		}
	}
	return out
}

type sshObs struct {
	Calls          []vlib.Call
	Logins         []common.RemoteUserLogin
	Err            error
	Panic          string
	Delta          map[string]float64
	T0, T1         time.Time
	QueuedAtEncode int
}

// observe processes one line. via: "direct" hands (pid,msg) to the sshd
// processor; "syslog" hands `line` to SyslogIngester.Process.
func (h *sshHarness) observe(ctx context.Context, via, pid, msg, line string, withCounters bool) (o sshObs) {
	var before map[string]float64
	if withCounters {
		before = h.counters()
	}
	n0 := h.rec.Len()
	h.queuedAtEncode = 0
	o.T0 = time.Now()
	func() {
		defer func() {
			if p := recover(); p != nil {
				o.Panic = fmt.Sprint(p)
			}
		}()
		if via == "direct" {
			o.Err = h.proc.ProcessSshdLogEntry(ctx, sshd.SshdLogEntry{PID: pid, Message: msg})
		} else {
			o.Err = h.sli.Process(ctx, line)
		}
	}()
	o.T1 = time.Now()
	o.Calls = h.rec.Since(n0)
	o.QueuedAtEncode = h.queuedAtEncode
	for {
		select {
		case l := <-h.logins:
			o.Logins = append(o.Logins, l)
			continue
		default:
		}
		break
	}
	if withCounters {
		after := h.counters()
		o.Delta = map[string]float64{}
		for k, v := range after {
			if d := v - before[k]; d != 0 {
				o.Delta[k] = d
			}
		}
	}
	return o
}

// eventDiff compares an emitted event (JSON snapshot, decoded) with the
// expectation built from the generated fields. Returns "" when equal.
// knownKeys: every map key any message form's expected event uses, per map.
// A key the oracle knows must appear exactly where the oracle expects it; a
// key it has never heard of (a field added by a later version) is not its
// business - the property fixes the values of the listed fields, not the
// absence of further ones.
var knownKeys = func() map[string]map[string]bool {
	out := map[string]map[string]bool{"subjects": {}, "source.extra": {}, "data": {}, "metadata.extra": {}, "target": {"host": true, "machine-id": true}}
	r := vlib.NewRng(1, "known-keys")
	for _, f := range vlib.SshForms {
		for n := 0; n < 8; n++ {
			e := vlib.GenSsh(r, f, -1, -1).Expected("1")
			for k := range e.Subjects {
				out["subjects"][k] = true
			}
			for k := range e.SrcExtra {
				out["source.extra"][k] = true
			}
			for k := range e.Data {
				out["data"][k] = true
			}
			for k := range e.MetaExtra {
				out["metadata.extra"][k] = true
			}
		}
	}
	return out
}()

// mapDiff: every expected key with its value, no known key that is not expected.
func mapDiff(which string, got, want map[string]string) bool {
	for k, v := range want {
		if g, ok := got[k]; !ok || g != v {
			return true
		}
	}
	for k := range got {
		if _, ok := want[k]; !ok && knownKeys[which][k] {
			return true
		}
	}
	return false
}

func eventDiff(ev *auditevent.AuditEvent, exp vlib.ExpEvent, t0, t1 time.Time) string {
	var d []string
	if ev.Type != "UserLogin" {
		d = append(d, fmt.Sprintf("type=%q", ev.Type))
	}
	if ev.Component != "sshd" {
		d = append(d, fmt.Sprintf("component=%q", ev.Component))
	}
	if ev.Outcome != exp.Outcome {
		d = append(d, fmt.Sprintf("outcome=%q want %q", ev.Outcome, exp.Outcome))
	}
	if mapDiff("subjects", ev.Subjects, exp.Subjects) {
		d = append(d, fmt.Sprintf("subjects=%v want %v", ev.Subjects, exp.Subjects))
	}
	if ev.Source.Type != "IP" || ev.Source.Value != exp.SrcValue {
		d = append(d, fmt.Sprintf("source=%s/%q want IP/%q", ev.Source.Type, ev.Source.Value, exp.SrcValue))
	}
	gotExtra := map[string]string{}
	for k, v := range ev.Source.Extra {
		gotExtra[k] = fmt.Sprint(v)
	}
	wantExtra := exp.SrcExtra
	if wantExtra == nil {
		wantExtra = map[string]string{}
	}
	if mapDiff("source.extra", gotExtra, wantExtra) {
		d = append(d, fmt.Sprintf("source.extra=%v want %v", gotExtra, wantExtra))
	}
	gotData := map[string]string{}
	if ev.Data != nil {
		var anyData map[string]any
		if err := json.Unmarshal(*ev.Data, &anyData); err != nil {
			d = append(d, "data is not a JSON object: "+string(*ev.Data))
		}
		for k, v := range anyData {
			if sv, ok := v.(string); ok {
				gotData[k] = sv
			} else {
				b, _ := json.Marshal(v)
				gotData[k] = string(b)
			}
		}
	}
	wantData := exp.Data
	if wantData == nil {
		wantData = map[string]string{}
	}
	if mapDiff("data", gotData, wantData) {
		d = append(d, fmt.Sprintf("data=%v want %v", gotData, wantData))
	}
	gotMeta := map[string]string{}
	for k, v := range ev.Metadata.Extra {
		gotMeta[k] = fmt.Sprint(v)
	}
	wantMeta := exp.MetaExtra
	if wantMeta == nil {
		wantMeta = map[string]string{}
	}
	if mapDiff("metadata.extra", gotMeta, wantMeta) {
		d = append(d, fmt.Sprintf("metadata.extra=%v want %v", gotMeta, wantMeta))
	}
	if mapDiff("target", ev.Target, map[string]string{"host": vNode, "machine-id": vMID}) {
		d = append(d, fmt.Sprintf("target=%v", ev.Target))
	}
	if !t0.IsZero() && (ev.LoggedAt.Before(t0.Add(-time.Millisecond)) || ev.LoggedAt.After(t1.Add(time.Millisecond))) {
		d = append(d, fmt.Sprintf("loggedAt=%v outside [%v,%v]", ev.LoggedAt, t0, t1))
	}
	if ev.Metadata.AuditID == "" {
		d = append(d, "empty auditId")
	}
	return strings.Join(d, "; ")
}

// normEvent renders an event without its uuid and clock reading, for
// differential comparison.
func normEvent(ev auditevent.AuditEvent) string {
	ev.Metadata.AuditID = ""
	ev.LoggedAt = time.Time{}
	b, _ := json.Marshal(ev)
	return string(b)
}

func normLogin(l common.RemoteUserLogin) string {
	s := fmt.Sprintf("pid=%d cred=%q ", l.PID, l.CredUserID)
	if l.Source != nil {
		s += normEvent(*l.Source)
	}
	return s
}

func deltaString(d map[string]float64) string {
	ks := make([]string, 0, len(d))
	for k := range d {
		ks = append(ks, k)
	}
	sort.Strings(ks)
	var sb strings.Builder
	for _, k := range ks {
		fmt.Fprintf(&sb, "%s=%+g ", k, d[k])
	}
	return strings.TrimSpace(sb.String())
}

func hasKeyword(msg string) bool {
	for _, k := range vlib.SshKeywords {
		if strings.HasPrefix(msg, k) {
			return true
		}
	}
	return false
}

// coerce is the JSON string coercion the output undergoes anyway.
func coerce(s string) string {
	b, _ := json.Marshal(s)
	var out string
	_ = json.Unmarshal(b, &out)
	return out
}

func newMetrics() *metrics.PrometheusMetricsProvider {
	return metrics.NewPrometheusMetricsProviderForRegisterer(prometheus.NewRegistry())
}
