package main

import (
	"context"
	"fmt"
	"hash/fnv"
	"runtime"
	"sort"
	"strconv"
	"strings"
	"sync"
	"time"

	"github.com/elastic/go-libaudit/v2/aucoalesce"
	"github.com/elastic/go-libaudit/v2/auparse"
	"go.uber.org/zap"

	"github.com/metal-toolbox/audito-maldito/internal/common"
	"github.com/metal-toolbox/audito-maldito/internal/health"
	"github.com/metal-toolbox/audito-maldito/processors/auditd"
	"github.com/metal-toolbox/audito-maldito/processors/auditd/sessiontracker"
	"github.com/metal-toolbox/audito-maldito/verif/vlib"
)

func init() {
	register("C03", "exploration", checkC03)
	childEntries["c03"] = childC03
}

type trackerT interface {
	RemoteLogin(common.RemoteUserLogin) error
	AuditdEvent(*aucoalesce.Event) error
	DeleteUsersWithoutLoginsBefore(time.Time)
	DeleteRemoteUserLoginsBefore(time.Time)
}

// cprog is a small concurrent program on one tracker.
type cprog struct {
	Name    string
	Plan    Plan
	Threads [][]HOp
	Pre     []HOp // executed sequentially before the threads start
	Post    []HOp // executed sequentially after all threads finished
}

func (p cprog) String() string {
	var ts []string
	for _, t := range p.Threads {
		ts = append(ts, "("+histString(t)+")")
	}
	return strings.Join(ts, " || ")
}

// applyOp executes one operation against a tracker; uid is the operation's
// unique number (it becomes the event's millisecond timestamp).
func applyOp(tr trackerT, plan Plan, op HOp, uid int) error {
	ts := vlib.BaseTSms + int64(uid)
	seq := uint32(1000 + uid)
	switch op.Kind {
	case opLogin, opRelogin:
		return tr.RemoteLogin(common.RemoteUserLogin{Source: identityEvent(op.K, plan.Pid[op.K], time.Now().UTC()),
			PID: plan.Pid[op.K], CredUserID: "cred" + strconv.Itoa(userIdx(op.K, plan.Pid[op.K]))})
	case opRec:
		return tr.AuditdEvent(vlib.APIEvent(plan.Sid[op.K], auparse.AUDIT_LOGIN, strconv.Itoa(plan.Pid[op.K]), ts, seq, "success"))
	case opEv:
		return tr.AuditdEvent(vlib.APIEvent(plan.Sid[op.K], auparse.AUDIT_USER_CMD, strconv.Itoa(plan.Pid[op.K]+10000), ts, seq, "success"))
	case opCD:
		return tr.AuditdEvent(vlib.APIEvent(plan.Sid[op.K], auparse.AUDIT_CRED_DISP, strconv.Itoa(cdPid(plan.Pid[op.K], uid)), ts, seq, resultOf(uid)))
	case opUnknown:
		return tr.AuditdEvent(vlib.APIEvent("9"+strconv.Itoa(90000+op.K), auparse.AUDIT_USER_CMD, "78", ts, seq, "success"))
	case opClean:
		cut := procStart.Add(-time.Second)
		if op.Cut == cutAll {
			cut = time.Date(2100, 1, 1, 0, 0, 0, 0, time.UTC)
		}
		tr.DeleteUsersWithoutLoginsBefore(cut)
		tr.DeleteRemoteUserLoginsBefore(cut)
	}
	return nil
}

// outcomeOf projects the recorded calls to per-session emitted lists.
func outcomeOf(rec *vlib.Rec, errs []error) string {
	per := map[string][]string{}
	for _, c := range rec.Calls() {
		per[c.Ev.Metadata.AuditID] = append(per[c.Ev.Metadata.AuditID],
			fmt.Sprintf("%d:%s", c.Ev.LoggedAt.UnixMilli()-vlib.BaseTSms, c.Ev.Subjects["loggedAs"]))
	}
	var ks []string
	for k := range per {
		ks = append(ks, k)
	}
	sort.Strings(ks)
	var sb strings.Builder
	for _, k := range ks {
		fmt.Fprintf(&sb, "%s=[%s] ", k, strings.Join(per[k], ","))
	}
	for _, e := range errs {
		if e != nil {
			fmt.Fprintf(&sb, "ERR(%v) ", e)
		}
	}
	return sb.String()
}

// uidOf numbers operations thread-major.
func (p cprog) uids() [][]int {
	n := len(p.Pre)
	out := make([][]int, len(p.Threads))
	for t, ops := range p.Threads {
		for range ops {
			out[t] = append(out[t], n)
			n++
		}
	}
	return out
}

// admissible runs every merge of the threads' operation lists sequentially
// against the same real code and returns the set of outcomes.
// admissibleDeadlock: a sequential execution hung; nothing further is explored in this process.
var admissibleDeadlock bool

func (p cprog) admissible() map[string]string {
	out := map[string]string{}
	uids := p.uids()
	idx := make([]int, len(p.Threads))
	var order []int // thread ids
	var rec func()
	rec = func() {
		if admissibleDeadlock {
			return
		}
		done := true
		for t := range p.Threads {
			if idx[t] < len(p.Threads[t]) {
				done = false
				idx[t]++
				order = append(order, t)
				rec()
				order = order[:len(order)-1]
				idx[t]--
			}
		}
		if !done {
			return
		}
		r := vlib.NewRec()
		r.NoGid = true
		tr := sessiontracker.NewSessionTracker(r.Writer(), trackerLogger())
		pos := make([]int, len(p.Threads))
		var errs []error
		var desc []string
		// a single delivery that never returns (a lock taken twice on one path)
		// must not hang the oracle: each runs under a generous watchdog
		stuck := ""
		guarded := func(op HOp, uid int) {
			if stuck != "" {
				return
			}
			done := make(chan error, 1)
			go func() { done <- applyOp(tr, p.Plan, op, uid) }()
			select {
			case e := <-done:
				errs = append(errs, e)
			case <-time.After(20 * time.Second):
				stuck = op.String()
			}
		}
		for i, op := range p.Pre {
			guarded(op, i)
		}
		for _, t := range order {
			op := p.Threads[t][pos[t]]
			guarded(op, uids[t][pos[t]])
			desc = append(desc, op.String())
			pos[t]++
		}
		for i, op := range p.Post {
			guarded(op, p.postUID(i))
		}
		if stuck != "" {
			out["DEADLOCK: delivery "+stuck+" did not return within 20 s in the sequential order "+strings.Join(desc, " ")] = strings.Join(desc, " ")
			admissibleDeadlock = true
			return
		}
		o := outcomeOf(r, errs)
		if _, ok := out[o]; !ok {
			out[o] = strings.Join(desc, " ")
		}
	}
	rec()
	return out
}

// instance builds a fresh tracker and the thread functions.
func (p cprog) instance() ([]func(), func() string) {
	r := vlib.NewRec()
	r.NoGid = true
	tr := sessiontracker.NewSessionTracker(r.Writer(), trackerLogger())
	uids := p.uids()
	var mu sync.Mutex
	var errs []error
	var fns []func()
	for i, op := range p.Pre {
		errs = append(errs, applyOp(tr, p.Plan, op, i))
	}
	for t := range p.Threads {
		t := t
		fns = append(fns, func() {
			for i, op := range p.Threads[t] {
				err := applyOp(tr, p.Plan, op, uids[t][i])
				mu.Lock()
				errs = append(errs, err)
				mu.Unlock()
			}
		})
	}
	return fns, func() string {
		for i, op := range p.Post {
			errs = append(errs, applyOp(tr, p.Plan, op, p.postUID(i)))
		}
		return outcomeOf(r, errs)
	}
}

func (p cprog) postUID(i int) int {
	n := len(p.Pre)
	for _, t := range p.Threads {
		n += len(t)
	}
	return n + i
}

func smallPrograms() []cprog {
	p2 := mkPlan(2)
	L := func(k int) HOp { return HOp{Kind: opLogin, K: k} }
	R := func(k int) HOp { return HOp{Kind: opRec, K: k} }
	E := func(k int) HOp { return HOp{Kind: opEv, K: k, Typ: "USER_CMD"} }
	D := func(k int) HOp { return HOp{Kind: opCD, K: k} }
	CA := HOp{Kind: opClean, Cut: cutAll}
	U := HOp{Kind: opUnknown, K: 0} // a record of a session nobody knows: goes through the lock, changes nothing
	CN := HOp{Kind: opClean, Cut: cutNone}
	return []cprog{
		{Name: "P1 login || (rec;ev;ev)", Plan: p2, Threads: [][]HOp{{L(0)}, {R(0), E(0), E(0)}}},
		{Name: "P2a P1 || cleanup(all)", Plan: p2, Threads: [][]HOp{{L(0)}, {R(0), E(0), E(0)}, {CA}}},
		{Name: "P2n P1 || cleanup(none)", Plan: p2, Threads: [][]HOp{{L(0)}, {R(0), E(0)}, {CN}}},
		{Name: "P3 login || rec || (rec';ev')", Plan: p2, Threads: [][]HOp{{L(0)}, {R(0)}, {R(1), E(1)}}},
		{Name: "P4 two logins || two recs", Plan: p2, Threads: [][]HOp{{L(0)}, {L(1)}, {R(0)}, {R(1)}}},
		{Name: "P5 login || (rec;cd)", Plan: p2, Threads: [][]HOp{{L(0)}, {R(0), D(0)}}},
		{Name: "P6 (login;login') || (rec;ev;rec';ev')", Plan: p2, Threads: [][]HOp{{L(0), L(1)}, {R(0), E(0), R(1), E(1)}}},
		{Name: "P7 login || (rec;ev) || login' || (rec';ev')", Plan: p2, Threads: [][]HOp{{L(0)}, {R(0), E(0)}, {L(1)}, {R(1), E(1)}}},
		{Name: "P8 login || (rec;ev;cd;ev)", Plan: p2, Threads: [][]HOp{{L(0)}, {R(0), E(0), D(0), E(0)}}},
		// a cleanup whose effect is the same in every sequential order (login 0 is
		// parked before the threads start and must be gone afterwards), running
		// against a busy other session: a cleanup that gives up under contention
		// shows as session 0 being emitted
		{Name: "P9 login,login'; (noise;noise;cleanup(all) || rec';ev'x4); rec;ev", Plan: p2, Pre: []HOp{L(0), L(1)}, Threads: [][]HOp{{U, U, CA}, {R(1), E(1), E(1), E(1), E(1)}}, Post: []HOp{R(0), E(0)}},
		// a parked login expires while its LOGIN record is being processed; the
		// login line is then delivered again: in every sequential order the
		// session exists by then (correlated or pending) and everything comes out
		{Name: "P11 login'; (cleanup(all) || rec';ev'); login' again;ev'", Plan: p2, Pre: []HOp{L(1)}, Threads: [][]HOp{{CA}, {R(1), E(1)}}, Post: []HOp{L(1), E(1)}},
		// a login delivered a second time while the first is still waiting, against its LOGIN record
		{Name: "P13 login'; (login' again || rec';ev'); ev'", Plan: p2, Pre: []HOp{L(1)}, Threads: [][]HOp{{L(1)}, {R(1), E(1)}}, Post: []HOp{E(1)}},
		{Name: "P12 login,login'; (cleanup(all) || rec';ev' || rec;ev); login,login' again;ev,ev'", Plan: p2, Pre: []HOp{L(0), L(1)}, Threads: [][]HOp{{CA}, {R(1), E(1)}, {R(0), E(0)}}, Post: []HOp{L(0), L(1), E(0), E(1)}},
		{Name: "P10 rec; (noise;cleanup(all) || login';rec';ev';ev'); login;ev", Plan: p2, Pre: []HOp{R(0)}, Threads: [][]HOp{{U, CA}, {L(1), R(1), E(1), E(1)}}, Post: []HOp{L(0), E(0)}},
	}
}

// largeProgram: every session's audit events stay in one thread (as the one
// parser goroutine delivers them), logins and harmless cleanups in others, so
// the expected emission is the same for every interleaving.
func largeProgram(r *vlib.Rng) cprog {
	ns := 3 + r.Intn(4)
	plan := mkPlan(ns)
	nAudit := 1 + r.Intn(2)
	audit := make([][]HOp, nAudit)
	for k := 0; k < ns; k++ {
		t := r.Intn(nAudit)
		audit[t] = append(audit[t], HOp{Kind: opRec, K: k})
		for e := r.Intn(3); e > 0; e-- {
			audit[t] = append(audit[t], HOp{Kind: opEv, K: k, Typ: "USER_CMD"})
		}
		if r.Chance(40) {
			audit[t] = append(audit[t], HOp{Kind: opCD, K: k})
		}
	}
	// shuffle inside each audit thread keeping per-session order
	for t := range audit {
		byS := map[int][]HOp{}
		var ks []int
		for _, o := range audit[t] {
			if _, ok := byS[o.K]; !ok {
				ks = append(ks, o.K)
			}
			byS[o.K] = append(byS[o.K], o)
		}
		var merged []HOp
		for len(ks) > 0 {
			i := r.Intn(len(ks))
			k := ks[i]
			merged = append(merged, byS[k][0])
			byS[k] = byS[k][1:]
			if len(byS[k]) == 0 {
				ks = append(ks[:i], ks[i+1:]...)
			}
		}
		audit[t] = merged
	}
	nLogin := 1 + r.Intn(3)
	logins := make([][]HOp, nLogin)
	for _, k := range r.Perm(ns) {
		t := r.Intn(nLogin)
		logins[t] = append(logins[t], HOp{Kind: opLogin, K: k})
	}
	p := cprog{Name: "large", Plan: plan}
	for _, t := range audit {
		if len(t) > 0 {
			p.Threads = append(p.Threads, t)
		}
	}
	for _, t := range logins {
		if len(t) > 0 {
			p.Threads = append(p.Threads, t)
		}
	}
	if r.Chance(50) {
		p.Threads = append(p.Threads, []HOp{{Kind: opClean, Cut: cutNone}, {Kind: opClean, Cut: cutNone}})
	}
	return p
}

// expectedLarge is the outcome every sequential order of a largeProgram gives.
func (p cprog) expectedLarge() string {
	uids := p.uids()
	per := map[string][]string{}
	for t, ops := range p.Threads {
		open := map[int]bool{}
		ended := map[int]bool{}
		for i, op := range ops {
			switch op.Kind {
			case opRec:
				open[op.K] = true
			case opEv, opCD:
				if !open[op.K] || ended[op.K] {
					continue
				}
			default:
				continue
			}
			per[p.Plan.Sid[op.K]] = append(per[p.Plan.Sid[op.K]], fmt.Sprintf("%d:user%d", uids[t][i], userIdx(op.K, p.Plan.Pid[op.K])))
			if op.Kind == opCD {
				ended[op.K] = true
			}
		}
	}
	var ks []string
	for k := range per {
		ks = append(ks, k)
	}
	sort.Strings(ks)
	var sb strings.Builder
	for _, k := range ks {
		fmt.Fprintf(&sb, "%s=[%s] ", k, strings.Join(per[k], ","))
	}
	return sb.String()
}

// stripPostEnd removes post-CRED_DISP emissions (unspecified) from an outcome
// of a largeProgram so that it can be compared with expectedLarge.
func (p cprog) normalizeLarge(rec *vlib.Rec) string {
	uids := p.uids()
	cdUID := map[string]int{}
	for t, ops := range p.Threads {
		for i, op := range ops {
			if op.Kind == opCD {
				if _, ok := cdUID[p.Plan.Sid[op.K]]; !ok {
					cdUID[p.Plan.Sid[op.K]] = uids[t][i]
				}
			}
		}
	}
	per := map[string][]string{}
	for _, c := range rec.Calls() {
		sid := c.Ev.Metadata.AuditID
		u := int(c.Ev.LoggedAt.UnixMilli() - vlib.BaseTSms)
		if cd, ok := cdUID[sid]; ok && u > cd {
			continue
		}
		per[sid] = append(per[sid], fmt.Sprintf("%d:%s", u, c.Ev.Subjects["loggedAs"]))
	}
	var ks []string
	for k := range per {
		ks = append(ks, k)
	}
	sort.Strings(ks)
	var sb strings.Builder
	for _, k := range ks {
		fmt.Fprintf(&sb, "%s=[%s] ", k, strings.Join(per[k], ","))
	}
	return sb.String()
}

func hashInts(xs []int) string {
	h := fnv.New64a()
	for _, x := range xs {
		h.Write([]byte{byte(x)})
	}
	return strconv.FormatUint(h.Sum64(), 16)
}

// ---- steer mode (plain build, in-process) ----

func c03Steer(r *vlib.Run) (execs int, distinct *vlib.Distinct) {
	distinct = vlib.NewDistinct()
	perProg := map[string]any{}
	for _, p := range smallPrograms() {
		adm := p.admissible()
		if admissibleDeadlock {
			for k := range adm {
				if strings.HasPrefix(k, "DEADLOCK") {
					r.Violation("C03:steer:deadlock:sequential:"+strings.Fields(p.Name)[0], p.String()+": "+k, map[string]any{"program": p.String()})
				}
			}
			break // the hung delivery still holds its locks: nothing more can be learnt in this process
		}
		seen := map[string]int{}
		maxDepth := 0
		cap := r.Pick(60000, 2000000)
		bad := 0
		n, complete := exploreAll(p.instance, cap, func(s *steer, outcome string) bool {
			distinct.Add(p.Name + "|" + hashInts(s.grants))
			if len(s.taken) > maxDepth {
				maxDepth = len(s.taken)
			}
			wit := map[string]any{"program": p.String(), "schedule_grants": s.grants}
			switch {
			case s.abandoned != "":
				r.Inconclusive("steering abandoned for " + p.Name + ": " + trunc(s.abandoned, 300))
			case s.deadlock != "":
				r.Violation("C03:steer:deadlock:"+strings.Fields(p.Name)[0], fmt.Sprintf("%s: no thread can run: %s | schedule %v", p.Name, s.deadlock, s.grants), wit)
			case s.panicked != nil:
				r.Violation("C03:steer:panic:"+strings.Fields(p.Name)[0], fmt.Sprintf("%s: panic %v | schedule %v", p.Name, s.panicked, s.grants), wit)
			default:
				seen[outcome]++
				if _, ok := adm[outcome]; !ok {
					var as []string
					for a := range adm {
						as = append(as, "{"+a+"}")
					}
					sort.Strings(as)
					r.Violation("C03:steer:non-serializable-outcome:"+strings.Fields(p.Name)[0],
						fmt.Sprintf("%s: schedule %v ended with {%s}, which no sequential order of the same deliveries produces; admissible: %s", p.String(), s.grants, outcome, strings.Join(as, " ")), wit)
					bad++
				}
			}
			return bad < 200 // enough witnesses for this program
		})
		execs += n
		perProg[p.Name] = map[string]any{"schedules": n, "exhaustive": complete, "admissible_outcomes": len(adm), "distinct_outcomes_seen": len(seen), "max_decision_depth": maxDepth}
		if len(seen) > 0 && p.Name[:2] == "P1" {
			r.Sample(map[string]any{"program": p.String(), "schedules": n, "outcomes_seen": seen})
		}
	}
	r.Set("steer_small_programs", perProg)
	// larger programs: seeded random schedules
	nLarge := r.Pick(1500, 150000)
	largeDone := 0
	for i := 0; i < nLarge; i++ {
		rng := vlib.NewRng(r.Seed, "C03/large/"+strconv.Itoa(i))
		p := largeProgram(rng)
		rec := vlib.NewRec()
		rec.NoGid = true
		tr := sessiontracker.NewSessionTracker(rec.Writer(), trackerLogger())
		uids := p.uids()
		var fns []func()
		for t := range p.Threads {
			t := t
			fns = append(fns, func() {
				for j, op := range p.Threads[t] {
					_ = applyOp(tr, p.Plan, op, uids[t][j])
				}
			})
		}
		// PCT-like for every third program: a random priority order with a few change points
		var chooser func(depth int, enabled []int) int
		if i%3 == 0 {
			prio := rng.Perm(len(p.Threads))
			chooser = func(depth int, enabled []int) int {
				if rng.Chance(5) {
					prio = rng.Perm(len(p.Threads))
				}
				best := 0
				for k, id := range enabled {
					if prio[id] < prio[enabled[best]] {
						best = k
					}
				}
				return best
			}
		} else {
			chooser = func(depth int, enabled []int) int { return rng.Intn(len(enabled)) }
		}
		s := runSteered(fns, nil, chooser)
		execs++
		wit := map[string]any{"program": p.String(), "schedule_grants": s.grants}
		switch {
		case s.abandoned != "":
			r.Inconclusive("steering abandoned for a large program: " + trunc(s.abandoned, 200))
			i = nLarge
		case s.deadlock != "":
			r.Violation("C03:steer:deadlock:large", fmt.Sprintf("%s: no thread can run: %s", p.String(), s.deadlock), wit)
		default:
			largeDone++
			distinct.Add("large|" + strconv.Itoa(i) + "|" + hashInts(s.grants))
			if got, want := p.normalizeLarge(rec), p.expectedLarge(); got != want {
				r.Violation("C03:steer:non-serializable-outcome:large", fmt.Sprintf("%s: schedule %v ended with {%s}; every sequential order gives {%s}", p.String(), s.grants, got, want), wit)
			}
		}
	}
	r.Set("steer_large_program_schedules", largeDone)
	return execs, distinct
}

// ---- perturb mode (race build, child processes) ----

func perturbHook(seed int64) func(mu *sync.Mutex, phase int) {
	return func(mu *sync.Mutex, phase int) {
		// No shared memory, no atomics: anything that synchronises here
		// would hide the races this mode is meant to expose.
		x := uint64(time.Now().UnixNano()) ^ uint64(seed)*0x9e3779b97f4a7c15
		x ^= x >> 29
		x *= 0xbf58476d1ce4e5b9
		x ^= x >> 32
		switch x % 16 {
		case 0, 1, 2:
			runtime.Gosched()
		case 3:
			for i := 0; i < 3; i++ {
				runtime.Gosched()
			}
		case 4:
			time.Sleep(time.Duration(1+x%200) * time.Microsecond)
		}
	}
}

func childC03(args []string) {
	_, seed, from, to, out, rest := childArgs(args)
	defer out.finish()
	common.VerifLockHook = perturbHook(seed)
	switch rest[0] {
	case "programs":
		progs := smallPrograms()
		adms := make([]map[string]string, len(progs))
		for i := from; i < to; i++ {
			var p cprog
			large := i%4 == 3
			if large {
				p = largeProgram(vlib.NewRng(seed, "C03/plarge/"+strconv.Itoa(i)))
			} else {
				p = progs[(i/4)%len(progs)]
				if adms[(i/4)%len(progs)] == nil {
					common.VerifLockHook = nil
					adms[(i/4)%len(progs)] = p.admissible()
					common.VerifLockHook = perturbHook(seed)
				}
			}
			out.begin(i, p.String())
			rec := vlib.NewRec()
			rec.NoGid = true
			tr := sessiontracker.NewSessionTracker(rec.Writer(), trackerLogger())
			uids := p.uids()
			for j, op := range p.Pre {
				_ = applyOp(tr, p.Plan, op, j)
			}
			var wg sync.WaitGroup
			start := make(chan struct{})
			errs := make([][]error, len(p.Threads))
			for t := range p.Threads {
				t := t
				wg.Add(1)
				go func() {
					defer wg.Done()
					<-start
					for j, op := range p.Threads[t] {
						errs[t] = append(errs[t], applyOp(tr, p.Plan, op, uids[t][j]))
					}
				}()
			}
			close(start)
			fin := make(chan struct{})
			go func() { wg.Wait(); close(fin) }()
			select {
			case <-fin:
			case <-time.After(30 * time.Second):
				stuck, why := classifyStacks(vlib.AllStacks(), "sessiontracker.(*sessionTracker)")
				if stuck {
					out.violation("C03:perturb:deadlock", fmt.Sprintf("%s: deliveries parked for 30 s: %s", p.String(), why), map[string]any{"program": p.String()})
				} else {
					out.inconclusive("C03 perturb: program did not finish within 30 s: " + why)
				}
				return
			}
			for j, op := range p.Post {
				_ = applyOp(tr, p.Plan, op, p.postUID(j))
			}
			out.add("perturb_runs", 1)
			var flat []error
			for _, e := range errs {
				flat = append(flat, e...)
			}
			if large {
				got, want := p.normalizeLarge(rec), p.expectedLarge()
				out.class("large|" + hashOutcome(got))
				if got != want {
					out.violation("C03:perturb:non-serializable-outcome:large", fmt.Sprintf("%s ended with {%s}; every sequential order gives {%s}", p.String(), got, want), map[string]any{"program": p.String()})
				}
			} else {
				o := outcomeOf(rec, flat)
				out.class(strings.Fields(p.Name)[0] + "|" + hashOutcome(o))
				if _, ok := adms[(i/4)%len(progs)][o]; !ok {
					out.violation("C03:perturb:non-serializable-outcome:"+strings.Fields(p.Name)[0], fmt.Sprintf("%s ended with {%s}, which no sequential order produces", p.String(), o), map[string]any{"program": p.String()})
				}
			}
		}
	case "wiring":
		for i := from; i < to; i++ {
			out.begin(i, "wiring batch")
			c03Wiring(seed, i, out)
		}
	}
}

func hashOutcome(s string) string {
	h := fnv.New32a()
	h.Write([]byte(s))
	return strconv.FormatUint(uint64(h.Sum32()), 16)
}

// c03Wiring drives Auditd.Read as wired in production: logins through the
// Logins channel, records through the Audits channel, both halves of a
// session released at the same instant from two goroutines.
func c03Wiring(seed int64, b int, out *childOut) {
	const N = 25
	rec := vlib.NewRec()
	audits := make(chan string, 8)
	logins := make(chan common.RemoteUserLogin)
	a := auditd.Auditd{Audits: audits, Logins: logins, EventW: rec.Writer(), Health: health.NewHealth()}
	ctx, cancel := context.WithCancel(context.Background())
	defer cancel()
	done := make(chan error, 1)
	go func() { done <- a.Read(ctx) }()
	seq := uint32(100)
	fail := false
	for k := 0; k < N && !fail; k++ {
		pid := 60000 + k
		sid := strconv.Itoa(4000 + k)
		var wg sync.WaitGroup
		start := make(chan struct{})
		wg.Add(2)
		seq += 2
		s1, s2 := seq-1, seq
		go func() {
			defer wg.Done()
			<-start
			select {
			case logins <- common.RemoteUserLogin{Source: identityEvent(k, pid, time.Now().UTC()), PID: pid, CredUserID: "c"}:
			case <-time.After(30 * time.Second):
				fail = true
			}
		}()
		go func() {
			defer wg.Done()
			<-start
			for _, l := range []string{vlib.AuLogin(vlib.BaseTSms+int64(k*10), s1, strconv.Itoa(pid), sid),
				vlib.AuUser("USER_START", vlib.BaseTSms+int64(k*10+1), s2, pid, sid, "PAM:x", "success")} {
				select {
				case audits <- l:
				case <-time.After(30 * time.Second):
					fail = true
				}
			}
		}()
		close(start)
		wg.Wait()
	}
	if fail {
		select {
		case err := <-done:
			out.violation("C03:wiring:read-stopped", fmt.Sprint("Auditd.Read returned ", err), map[string]any{"batch": b})
		default:
			out.inconclusive("C03 wiring: Read stopped taking input")
		}
		return
	}
	// barrier: sentinel login + two sentinel lines, then wait for quiescence
	select {
	case logins <- common.RemoteUserLogin{Source: identityEvent(9999, 3999997, time.Now().UTC()), PID: 3999997, CredUserID: "s"}:
	case <-time.After(30 * time.Second):
	}
	for k := 0; k < 2; k++ {
		seq++
		select {
		case audits <- vlib.AuUser("USER_ACCT", vlib.BaseTSms+900000+int64(k), seq, 1, "4294967295", "x", "success"):
		case <-time.After(30 * time.Second):
		}
	}
	deadline := time.Now().Add(20 * time.Second)
	for (len(audits) > 0 || rec.Len() < 2*N) && time.Now().Before(deadline) {
		time.Sleep(200 * time.Microsecond)
	}
	cancel()
	select {
	case <-done:
	case <-time.After(30 * time.Second):
		out.inconclusive("C03 wiring: Read did not return after cancel")
		return
	}
	out.add("wiring_pairs", N)
	per := map[string]int{}
	for _, c := range rec.Calls() {
		per[c.Ev.Metadata.AuditID]++
	}
	for k := 0; k < N; k++ {
		sid := strconv.Itoa(4000 + k)
		if per[sid] != 2 {
			out.violation("C03:wiring:halves-left-waiting", fmt.Sprintf("session %s: login and LOGIN record were both delivered within the same instant, yet %d of its 2 events were emitted", sid, per[sid]), map[string]any{"batch": b, "session": sid})
		}
	}
	out.class("wiring|" + strconv.Itoa(len(per)))
}

func checkC03(r *vlib.Run) int {
	execs, distinct := c03Steer(r)
	nProg := r.Pick(2400, 200000)
	nWire := r.Pick(300, 20000) / 25
	stats := map[string]int{}
	for _, ph := range []struct {
		name string
		n    int
	}{{"programs", nProg}, {"wiring", nWire}} {
		res := runChildren(r, "mon-race", "c03", ph.n, (ph.n+31)/32, 20*time.Minute, ph.name)
		for k, v := range res.stats {
			stats[k] += v
		}
		for _, k := range res.distinct.Keys() {
			distinct.Add("perturb|" + k)
		}
	}
	// the daemon itself under the race detector, halves released together
	races := 0
	nD := r.Pick(1, 6)
	dOK := 0
	for s := 0; s < nD; s++ {
		rng := vlib.NewRng(r.Seed, fmt.Sprintf("C03/daemon/%d", s))
		res := daemonRun(rng, 150, false, false, true, false)
		if !res.ok {
			r.Inconclusive("race-daemon scenario not observable: " + trunc(res.why, 300))
			continue
		}
		dOK++
		races += res.races
		if res.races > 0 {
			r.Violation("C03:daemon:data-race", fmt.Sprintf("%d race reports: %s", res.races, res.raceSum), map[string]any{"scenario": s})
		}
		emitted := map[string]int{}
		for i := range res.out.Events {
			if res.out.Events[i].Type == "UserAction" {
				emitted[res.out.Events[i].Metadata.AuditID]++
			}
		}
		for _, se := range res.sc.Sessions {
			if se.HasLogin && se.HasRec && emitted[se.Sid] == 0 {
				r.Violation("C03:daemon:halves-left-waiting", fmt.Sprintf("session %s (pid %d): both halves were written to the pipes, nothing was emitted (window %d)", se.Sid, se.Pid, res.sc.Window), map[string]any{"scenario": s})
			}
		}
	}
	r.Set("perturb_program_runs_under_race", stats["perturb_runs"])
	r.Set("wiring_login_record_pairs_under_race", stats["wiring_pairs"])
	r.Set("race_daemon_scenarios", dOK)
	r.Set("race_reports", races)
	r.Set("steer_schedules_total", execs)
	r.Require(execs > 500, "fewer than 500 steered schedules")
	r.Require(stats["perturb_runs"] >= nProg*9/10, "too few perturbed runs")
	r.Require(stats["wiring_pairs"] >= nWire*25*9/10, "too few wiring pairs")
	r.Assumptions = []string{"schedule points are the hooked lock sites (GenericSyncMap methods, and any lock site marked with common.VerifLockSite); exhaustiveness is at that granularity and sound only for data-race-free code, which the race detector checks on the executions it sees",
		"the set of admissible outcomes of a small program is obtained by running the same real code sequentially for every merge of the threads' operation lists"}
	return r.Finish(execs+stats["perturb_runs"]+stats["wiring_pairs"]/25, distinct.Len(), "steer mode: nine small concurrent programs on one tracker explored exhaustively at lock-acquisition granularity (outcome must be one some sequential order produces; no deadlock), larger programs under seeded random and priority schedules; perturb mode under -race: the same programs free-running with delays at lock sites, Auditd.Read with login and LOGIN record released together, and the -race daemon; distinct = distinct grant sequences / outcomes")
}

// cdPid: the credential-disposal record that ends a session comes from the
// session's sshd process or from another process of the session (sudo, su):
// both are generated.
func cdPid(sshdPid, n int) int {
	if n%2 == 1 {
		return sshdPid + 20000
	}
	return sshdPid
}

// trackerLogger: nil (the tracker's own Nop logger) or, in processes run at
// debug log level, a debug-level logger to nowhere.
func trackerLogger() *zap.SugaredLogger {
	if debugLog {
		return debugLogger()
	}
	return nil
}
