package main

import "github.com/metal-toolbox/audito-maldito/verif/vlib"

func daemonCorrelation(r *vlib.Run, class string) {}

func c16Realtime(r *vlib.Run) {}
