package main

import (
	"context"
	"fmt"
	"sort"
	"strconv"
	"time"

	"github.com/metal-toolbox/audito-maldito/internal/common"
	"github.com/metal-toolbox/audito-maldito/internal/health"
	"github.com/metal-toolbox/audito-maldito/processors/auditd"
	"github.com/metal-toolbox/audito-maldito/verif/vlib"
)

// c16Realtime is the processor-level part of C16 (thorough tier only, about
// 160 s of wall time): one Auditd.Read with its real one-minute ticker.
// Halves less than a minute apart must correlate (also across a tick), halves
// more than two minutes apart must not, and held events must never appear.
// The actual gaps are measured; a gap that scheduling pushed into the
// unspecified 60-120 s band makes that session inconclusive.
func c16Realtime(r *vlib.Run) {
	type half struct {
		at    time.Duration
		login bool
		k     int
	}
	type sess struct {
		name          string
		recAt, logAt  time.Duration
		mustCorrelate bool
	}
	ss := []sess{
		{"A1 record T+35 login T+85", 35 * time.Second, 85 * time.Second, true},
		{"A2 login T+40 record T+95", 95 * time.Second, 40 * time.Second, true},
		{"A3 record T+58 login T+62", 58 * time.Second, 62 * time.Second, true},
		{"A4 record T+118 login T+123", 118 * time.Second, 123 * time.Second, true},
		{"B1 record T+1 login T+150", 1 * time.Second, 150 * time.Second, false},
		{"B2 record T+5 login T+131", 5 * time.Second, 131 * time.Second, false},
		{"C1 login T+1 record T+150", 150 * time.Second, 1 * time.Second, false},
		{"C2 login T+20 record T+145", 145 * time.Second, 20 * time.Second, false},
	}
	var hs []half
	for k, s := range ss {
		hs = append(hs, half{s.recAt, false, k}, half{s.logAt, true, k})
	}
	sort.Slice(hs, func(i, j int) bool { return hs[i].at < hs[j].at })
	rec := vlib.NewRec()
	audits := make(chan string)
	logins := make(chan common.RemoteUserLogin)
	a := auditd.Auditd{Audits: audits, Logins: logins, EventW: rec.Writer(), Health: health.NewHealth()}
	ctx, cancel := context.WithCancel(context.Background())
	defer cancel()
	done := make(chan error, 1)
	t0 := time.Now()
	go func() { done <- a.Read(ctx) }()
	actual := make([][2]time.Duration, len(ss)) // [rec, login]
	seq := uint32(100)
	for _, h := range hs {
		time.Sleep(time.Until(t0.Add(h.at)))
		pid := 70000 + h.k
		sid := strconv.Itoa(5000 + h.k)
		if h.login {
			select {
			case logins <- common.RemoteUserLogin{Source: identityEvent(h.k, pid, time.Now().UTC()), PID: pid, CredUserID: "c"}:
			case err := <-done:
				r.Inconclusive(fmt.Sprint("C16 real-time: Read returned early: ", err))
				return
			}
			actual[h.k][1] = time.Since(t0)
		} else {
			for _, l := range []string{vlib.AuLogin(vlib.BaseTSms+int64(h.k*10), seq+1, strconv.Itoa(pid), sid),
				vlib.AuUser("USER_START", vlib.BaseTSms+int64(h.k*10+1), seq+2, pid, sid, "PAM:x", "success")} {
				select {
				case audits <- l:
				case err := <-done:
					r.Inconclusive(fmt.Sprint("C16 real-time: Read returned early: ", err))
					return
				}
			}
			seq += 2
			actual[h.k][0] = time.Since(t0)
		}
	}
	// barrier lines, then let the last emissions land
	for k := 0; k < 2; k++ {
		seq++
		audits <- vlib.AuUser("USER_ACCT", vlib.BaseTSms+900000+int64(k), seq, 1, "4294967295", "x", "success")
	}
	time.Sleep(200 * time.Millisecond)
	cancel()
	<-done
	per := map[string]int{}
	for _, c := range rec.Calls() {
		per[c.Ev.Metadata.AuditID]++
	}
	var rows []any
	for k, s := range ss {
		gap := actual[k][0] - actual[k][1]
		if gap < 0 {
			gap = -gap
		}
		emitted := per[strconv.Itoa(5000+k)]
		rows = append(rows, map[string]any{"session": s.name, "measured_gap_s": gap.Seconds(), "events_emitted": emitted})
		switch {
		case gap > 60*time.Second && gap < 120*time.Second:
			r.Inconclusive(fmt.Sprintf("C16 real-time %s: measured gap %.1fs fell into the unspecified 60-120 s band", s.name, gap.Seconds()))
		case s.mustCorrelate && gap <= 60*time.Second && emitted != 2:
			r.Violation("C16:realtime:not-correlated-within-a-minute", fmt.Sprintf("%s: halves %.1fs apart, %d of 2 events emitted", s.name, gap.Seconds(), emitted), map[string]any{"session": s.name})
		case !s.mustCorrelate && gap >= 120*time.Second && emitted != 0:
			r.Violation("C16:realtime:correlated-after-two-minutes", fmt.Sprintf("%s: halves %.1fs apart, %d held events were emitted late", s.name, gap.Seconds(), emitted), map[string]any{"session": s.name})
		}
	}
	r.Set("realtime_sessions", rows)
	r.Set("realtime_wall_s", time.Since(t0).Seconds())
}
