package main

import "github.com/metal-toolbox/audito-maldito/verif/vlib"

func c16Realtime(r *vlib.Run) {}
