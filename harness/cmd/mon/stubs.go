package main

import (
	"context"
	"fmt"
	"sort"
	"strconv"
	"time"

	"github.com/metal-toolbox/audito-maldito/internal/common"
	"github.com/metal-toolbox/audito-maldito/internal/health"
	"github.com/metal-toolbox/audito-maldito/processors/auditd"
	"github.com/metal-toolbox/audito-maldito/verif/vlib"
)

// c16Realtime is the processor-level part of C16 (thorough tier only, about
// 160 s of wall time): one Auditd.Read with its real one-minute ticker.
// Halves less than a minute apart must correlate (also across a tick), halves
// more than two minutes apart must not, and held events must never appear.
// The actual gaps are measured; a gap that scheduling pushed into the
// unspecified 60-120 s band makes that session inconclusive.
func c16Realtime(r *vlib.Run) {
	c16RealtimeCore(1, time.Minute, r.Violation0, r.Inconclusive, r.Set)
}

func init() {
	// quick tier: the same run against a build in which only the constant
	// staleDataCleanupInterval is overlaid with 2 s (go build -overlay), so the
	// wiring of ticker and cut-off in Auditd.Read is exercised in ~6 s.
	childEntries["c16rt"] = func(args []string) {
		_, _, _, _, out, _ := childArgs(args)
		defer out.finish()
		out.begin(0, "scaled real-time run")
		c16RealtimeCore(30, 2*time.Second,
			func(sig, what string, wit any) { out.violation(sig+":scaled-2s", what, wit) },
			out.inconclusive,
			func(k string, v any) {
				if k == "realtime_sessions" {
					out.sample(map[string]any{"scaled_interval_s": 2, "sessions": v})
					out.add("scaled_realtime_sessions", len(v.([]any)))
					out.class("scaled-rt-a")
					out.class("scaled-rt-b")
				}
			})
	}
}

// c16RealtimeCore: div scales the timeline (1 = real minute, 30 = 2 s interval);
// interval is the cleanup interval the build under test uses.
func c16RealtimeCore(div int, interval time.Duration, violation func(sig, what string, wit any), inconclusive func(string), set func(string, any)) {
	type half struct {
		at    time.Duration
		login bool
		k     int
	}
	type sess struct {
		name          string
		recAt, logAt  time.Duration
		mustCorrelate bool
	}
	ss := []sess{
		{"A1 record T+35 login T+85", 35 * time.Second, 85 * time.Second, true},
		{"A2 login T+40 record T+90", 90 * time.Second, 40 * time.Second, true},
		{"A3 record T+58 login T+62", 58 * time.Second, 62 * time.Second, true},
		{"A4 record T+118 login T+123", 118 * time.Second, 123 * time.Second, true},
		{"B1 record T+1 login T+150", 1 * time.Second, 150 * time.Second, false},
		{"B2 record T+5 login T+131", 5 * time.Second, 131 * time.Second, false},
		{"C1 login T+1 record T+150", 150 * time.Second, 1 * time.Second, false},
		{"C2 login T+20 record T+145", 145 * time.Second, 20 * time.Second, false},
	}
	for k := range ss {
		ss[k].recAt /= time.Duration(div)
		ss[k].logAt /= time.Duration(div)
	}
	var hs []half
	for k, s := range ss {
		hs = append(hs, half{s.recAt, false, k}, half{s.logAt, true, k})
	}
	sort.Slice(hs, func(i, j int) bool { return hs[i].at < hs[j].at })
	rec := vlib.NewRec()
	audits := make(chan string)
	logins := make(chan common.RemoteUserLogin)
	a := auditd.Auditd{Audits: audits, Logins: logins, EventW: rec.Writer(), Health: health.NewHealth()}
	ctx, cancel := context.WithCancel(context.Background())
	defer cancel()
	done := make(chan error, 1)
	t0 := time.Now()
	go func() { done <- a.Read(ctx) }()
	actual := make([][2]time.Duration, len(ss)) // [rec, login]
	seq := uint32(100)
	for _, h := range hs {
		time.Sleep(time.Until(t0.Add(h.at)))
		pid := 70000 + h.k
		sid := strconv.Itoa(5000 + h.k)
		if h.login {
			select {
			case logins <- common.RemoteUserLogin{Source: identityEvent(h.k, pid, time.Now().UTC()), PID: pid, CredUserID: "c"}:
			case err := <-done:
				inconclusive(fmt.Sprint("C16 real-time: Read returned early: ", err))
				return
			}
			actual[h.k][1] = time.Since(t0)
		} else {
			for _, l := range []string{vlib.AuLogin(vlib.BaseTSms+int64(h.k*10), seq+1, strconv.Itoa(pid), sid),
				vlib.AuUser("USER_START", vlib.BaseTSms+int64(h.k*10+1), seq+2, pid, sid, "PAM:x", "success")} {
				select {
				case audits <- l:
				case err := <-done:
					inconclusive(fmt.Sprint("C16 real-time: Read returned early: ", err))
					return
				}
			}
			seq += 2
			actual[h.k][0] = time.Since(t0)
		}
	}
	// barrier lines, then let the last emissions land
	for k := 0; k < 2; k++ {
		seq++
		select {
		case audits <- vlib.AuUser("USER_ACCT", vlib.BaseTSms+900000+int64(k), seq, 1, "4294967295", "x", "success"):
		case err := <-done:
			inconclusive(fmt.Sprint("C16 real-time: Read returned early: ", err))
			return
		}
	}
	time.Sleep(200 * time.Millisecond)
	cancel()
	<-done
	per := map[string]int{}
	for _, c := range rec.Calls() {
		per[c.Ev.Metadata.AuditID]++
	}
	var rows []any
	// the harness stamps an arrival when its send completes, a little after the
	// correlator took its own reading: keep 5 % of the interval as a guard band
	margin := interval / 20
	for k, s := range ss {
		gap := actual[k][0] - actual[k][1]
		if gap < 0 {
			gap = -gap
		}
		emitted := per[strconv.Itoa(5000+k)]
		rows = append(rows, map[string]any{"session": s.name, "measured_gap_s": gap.Seconds(), "events_emitted": emitted})
		switch {
		case gap > interval-margin && gap < 2*interval+margin:
			inconclusive(fmt.Sprintf("C16 real-time %s: measured gap %.2fs fell into the unspecified band between one and two cleanup intervals (%v)", s.name, gap.Seconds(), interval))
		case s.mustCorrelate && gap <= interval-margin && emitted != 2:
			violation("C16:realtime:not-correlated-within-one-interval", fmt.Sprintf("%s (timeline /%d): halves %.2fs apart with a %v cleanup interval, %d of 2 events emitted", s.name, div, gap.Seconds(), interval, emitted), map[string]any{"session": s.name})
		case !s.mustCorrelate && gap >= 2*interval+margin && emitted != 0:
			violation("C16:realtime:correlated-after-two-intervals", fmt.Sprintf("%s (timeline /%d): halves %.2fs apart with a %v cleanup interval, %d held events were emitted late", s.name, div, gap.Seconds(), interval, emitted), map[string]any{"session": s.name})
		}
	}
	set("realtime_sessions", rows)
	set("realtime_wall_s", time.Since(t0).Seconds())
}
