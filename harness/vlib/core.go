// Package vlib holds what every monitor shares: run context (property id,
// tier, seed), the violation reporter with known-findings handling, the
// evidence writer, and small helpers.
package vlib

import (
	"bufio"
	"bytes"
	"crypto/sha256"
	"encoding/hex"
	"encoding/json"
	"fmt"
	"os"
	"path/filepath"
	"runtime"
	"sort"
	"strconv"
	"strings"
	"sync"
	"time"
)

// VerifDir is the root of the verification tree. All registered commands
// run with cwd=/verif; the monitors still use absolute paths so that they
// can be started from anywhere.
var VerifDir = envOr("VERIF_DIR", "/verif")

func envOr(k, d string) string {
	if v := os.Getenv(k); v != "" {
		return v
	}
	return d
}

// Run is the context of one check invocation.
type Run struct {
	Prop  string
	Tier  string // quick | thorough
	Seed  int64
	Level string // exploration | fault_enumeration
	Start time.Time

	mu           sync.Mutex
	violations   int
	knownSeen    map[string]bool
	inconclusive int
	notes        []string
	known        []Finding
	broken       []string // sanity-gate failures ("check broken")
	Cov          map[string]any
	Assumptions  []string
	samples      []any
	NoEvidence   bool // replay runs do not rewrite evidence
	sigCount     map[string]int
}

// Finding is one line of /verif/known-findings.jsonl.
type Finding struct {
	Status    string `json:"status"` // open | fixed
	Property  string `json:"property"`
	Signature string `json:"signature,omitempty"`
	Commit    string `json:"commit,omitempty"`
	What      string `json:"what"`
}

func NewRun(prop, tier, level string) *Run {
	seed := int64(1)
	if s := os.Getenv("VERIF_SEED"); s != "" {
		if v, err := strconv.ParseInt(s, 10, 64); err == nil {
			seed = v
		}
	}
	r := &Run{Prop: prop, Tier: tier, Seed: seed, Level: level, Start: time.Now(),
		knownSeen: map[string]bool{}, Cov: map[string]any{}}
	r.loadKnown()
	return r
}

func (r *Run) Thorough() bool { return r.Tier == "thorough" }

// Pick returns q for the quick tier and t for the thorough tier.
func (r *Run) Pick(q, t int) int {
	if r.Thorough() {
		return t
	}
	return q
}

func (r *Run) loadKnown() {
	f, err := os.Open(filepath.Join(VerifDir, "known-findings.jsonl"))
	if err != nil {
		return
	}
	defer f.Close()
	sc := bufio.NewScanner(f)
	sc.Buffer(make([]byte, 1<<20), 1<<20)
	for sc.Scan() {
		line := strings.TrimSpace(sc.Text())
		if line == "" || strings.HasPrefix(line, "#") {
			continue
		}
		var k Finding
		if json.Unmarshal([]byte(line), &k) == nil {
			r.known = append(r.known, k)
		}
	}
}

// Violation reports one observed violation. signature identifies the failing
// call site / input class (not just the property) and is what an "open"
// known finding is matched on. witness is written to a replay file.
// It returns true when the violation is new (not a listed open finding).
func (r *Run) Violation(signature, what string, witness any) bool {
	r.mu.Lock()
	defer r.mu.Unlock()
	for _, k := range r.known {
		if k.Status == "open" && k.Property == r.Prop && k.Signature == signature {
			if !r.knownSeen[signature] {
				r.knownSeen[signature] = true
				fmt.Printf("KNOWN-FINDING: property=%s %s [%s]\n", r.Prop, k.What, signature)
			}
			return false
		}
	}
	r.violations++
	if r.sigCount == nil {
		r.sigCount = map[string]int{}
	}
	r.sigCount[signature]++
	if r.sigCount[signature] > 3 || len(r.sigCount) > 40 {
		return true // enough witnesses written for this signature
	}
	wj, _ := json.MarshalIndent(map[string]any{
		"property":  r.Prop,
		"tier":      r.Tier,
		"seed":      r.Seed,
		"signature": signature,
		"what":      what,
		"witness":   witness,
	}, "", " ")
	h := sha256.Sum256(wj)
	dir := filepath.Join(VerifDir, "replays", r.Prop)
	_ = os.MkdirAll(dir, 0o755)
	p := filepath.Join(dir, hex.EncodeToString(h[:6])+".json")
	_ = os.WriteFile(p, wj, 0o644)
	fmt.Printf("VIOLATION property=%s replay=%s\n", r.Prop, p)
	fmt.Printf("  signature=%s\n  %s\n", signature, what)
	return true
}

// Violation0 is Violation without the return value (callback form).
func (r *Run) Violation0(signature, what string, witness any) { r.Violation(signature, what, witness) }

func (r *Run) Violations() int {
	r.mu.Lock()
	defer r.mu.Unlock()
	return r.violations
}

// Inconclusive records an execution on which no verdict could be reached.
func (r *Run) Inconclusive(what string) {
	r.mu.Lock()
	defer r.mu.Unlock()
	r.inconclusive++
	if len(r.notes) < 20 {
		r.notes = append(r.notes, what)
	}
	fmt.Printf("INCONCLUSIVE property=%s %s\n", r.Prop, what)
}

// Broken records that the check itself did not observe what it must observe
// to mean anything (non-vacuity gate). The run then exits 2, no VIOLATION.
func (r *Run) Broken(what string) {
	r.mu.Lock()
	defer r.mu.Unlock()
	r.broken = append(r.broken, what)
	fmt.Printf("CHECK-BROKEN property=%s %s\n", r.Prop, what)
}

// Require is a non-vacuity gate.
func (r *Run) Require(ok bool, what string) {
	if !ok {
		r.Broken(what)
	}
}

func (r *Run) Sample(s any) {
	r.mu.Lock()
	defer r.mu.Unlock()
	if len(r.samples) < 4 {
		r.samples = append(r.samples, s)
	}
}

func (r *Run) Add(key string, n int) {
	r.mu.Lock()
	defer r.mu.Unlock()
	cur, _ := r.Cov[key].(int)
	r.Cov[key] = cur + n
}

func (r *Run) Set(key string, v any) {
	r.mu.Lock()
	defer r.mu.Unlock()
	r.Cov[key] = v
}

// Append appends v to the list stored under key.
func (r *Run) Append(key string, v any) {
	r.mu.Lock()
	defer r.mu.Unlock()
	cur, _ := r.Cov[key].([]any)
	r.Cov[key] = append(cur, v)
}

func (r *Run) Get(key string) int {
	r.mu.Lock()
	defer r.mu.Unlock()
	cur, _ := r.Cov[key].(int)
	return cur
}

// Finish writes the evidence file and returns the process exit code.
func (r *Run) Finish(evaluations, distinct int, rule string) int {
	r.mu.Lock()
	defer r.mu.Unlock()
	wall := time.Since(r.Start).Seconds()
	cov := map[string]any{}
	for k, v := range r.Cov {
		cov[k] = v
	}
	cov["evaluations"] = evaluations
	cov["distinct_nontrivial"] = distinct
	cov["rule"] = rule
	if len(r.samples) == 0 {
		r.samples = append(r.samples, "no sample recorded")
	}
	cov["samples"] = r.samples
	cov["inconclusive"] = r.inconclusive
	if len(r.notes) > 0 {
		cov["inconclusive_notes"] = r.notes
	}
	if len(r.knownSeen) > 0 {
		ks := []string{}
		for k := range r.knownSeen {
			ks = append(ks, k)
		}
		sort.Strings(ks)
		cov["known_findings_reproduced"] = ks
	}
	ev := map[string]any{
		"property_id": r.Prop,
		"tier":        r.Tier,
		"seed":        r.Seed,
		"level":       r.Level,
		"coverage":    cov,
		"assumptions": r.Assumptions,
		"wall_s":      float64(int(wall*100)) / 100,
		"violations":  r.violations,
	}
	if r.Assumptions == nil {
		ev["assumptions"] = []string{}
	}
	if !r.NoEvidence {
		b, _ := json.MarshalIndent(ev, "", " ")
		dir := filepath.Join(VerifDir, "evidence")
		_ = os.MkdirAll(dir, 0o755)
		if err := os.WriteFile(filepath.Join(dir, r.Prop+".json"), append(b, '\n'), 0o644); err != nil {
			fmt.Println("cannot write evidence:", err)
			return 2
		}
	}
	fmt.Printf("SUMMARY property=%s tier=%s seed=%d evaluations=%d distinct=%d violations=%d inconclusive=%d wall=%.1fs\n",
		r.Prop, r.Tier, r.Seed, evaluations, distinct, r.violations, r.inconclusive, wall)
	if r.violations > 0 {
		sigs := make([]string, 0, len(r.sigCount))
		for k := range r.sigCount {
			sigs = append(sigs, k)
		}
		sort.Strings(sigs)
		for _, k := range sigs {
			fmt.Printf("  violations with signature %s: %d\n", k, r.sigCount[k])
		}
		return 1
	}
	if lim := evaluations / 50; r.inconclusive > 3 && r.inconclusive > lim {
		fmt.Printf("CHECK-BROKEN property=%s %d of %d executions were inconclusive: too many to call the run 'held'\n", r.Prop, r.inconclusive, evaluations)
		return 2
	}
	if len(r.broken) > 0 || evaluations < 1 || distinct < 2 {
		fmt.Printf("CHECK-BROKEN property=%s the run observed too little to mean anything (evaluations=%d distinct=%d)\n",
			r.Prop, evaluations, distinct)
		return 2
	}
	return 0
}

// Goid returns the id of the calling goroutine.
func Goid() int64 {
	var buf [64]byte
	n := runtime.Stack(buf[:], false)
	// "goroutine 123 [running]:..."
	s := buf[len("goroutine "):n]
	i := bytes.IndexByte(s, ' ')
	if i < 0 {
		return -1
	}
	id, _ := strconv.ParseInt(string(s[:i]), 10, 64)
	return id
}

// AllStacks returns the stack dump of all goroutines.
func AllStacks() string {
	buf := make([]byte, 1<<20)
	for {
		n := runtime.Stack(buf, true)
		if n < len(buf) {
			return string(buf[:n])
		}
		buf = make([]byte, 2*len(buf))
	}
}

// Distinct is a concurrent set of strings used to count distinct cases.
type Distinct struct {
	mu sync.Mutex
	m  map[string]struct{}
	h  map[uint64]struct{} // AddHash entries: 64-bit digests only (tens of millions of them in thorough runs)
}

func NewDistinct() *Distinct { return &Distinct{m: map[string]struct{}{}, h: map[uint64]struct{}{}} }

func (d *Distinct) Add(s string) {
	d.mu.Lock()
	d.m[s] = struct{}{}
	d.mu.Unlock()
}

func (d *Distinct) AddHash(b []byte) {
	h := sha256.Sum256(b)
	var k uint64
	for i := 0; i < 8; i++ {
		k = k<<8 | uint64(h[i])
	}
	d.mu.Lock()
	d.h[k] = struct{}{}
	d.mu.Unlock()
}

func (d *Distinct) Len() int {
	d.mu.Lock()
	defer d.mu.Unlock()
	return len(d.m) + len(d.h)
}

func (d *Distinct) Keys() []string {
	d.mu.Lock()
	defer d.mu.Unlock()
	ks := make([]string, 0, len(d.m))
	for k := range d.m {
		ks = append(ks, k)
	}
	sort.Strings(ks)
	return ks
}

// Rng is a small deterministic PRNG (splitmix64) so that case lists depend on
// (seed, tier) only and not on math/rand's version-specific stream.
type Rng struct{ s uint64 }

func NewRng(seed int64, stream string) *Rng {
	h := sha256.Sum256([]byte(fmt.Sprintf("%d/%s", seed, stream)))
	var s uint64
	for i := 0; i < 8; i++ {
		s = s<<8 | uint64(h[i])
	}
	return &Rng{s: s}
}

func (r *Rng) U64() uint64 {
	r.s += 0x9e3779b97f4a7c15
	z := r.s
	z = (z ^ (z >> 30)) * 0xbf58476d1ce4e5b9
	z = (z ^ (z >> 27)) * 0x94d049bb133111eb
	return z ^ (z >> 31)
}

func (r *Rng) Intn(n int) int {
	if n <= 0 {
		return 0
	}
	return int(r.U64() % uint64(n))
}

func (r *Rng) Bool() bool { return r.U64()&1 == 1 }

func (r *Rng) Chance(pct int) bool { return r.Intn(100) < pct }

func PickOne[T any](r *Rng, xs []T) T { return xs[r.Intn(len(xs))] }

func (r *Rng) Perm(n int) []int {
	p := make([]int, n)
	for i := range p {
		p[i] = i
	}
	for i := n - 1; i > 0; i-- {
		j := r.Intn(i + 1)
		p[i], p[j] = p[j], p[i]
	}
	return p
}
