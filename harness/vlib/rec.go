package vlib

import (
	"encoding/json"
	"errors"
	"sync"
	"sync/atomic"

	"github.com/metal-toolbox/auditevent"
)

// Clock is a global logical clock shared by every observer in one process.
var Clock int64

func Tick() int64 { return atomic.AddInt64(&Clock, 1) }

// ErrInjected is the sentinel returned by a recorder told to fail.
var ErrInjected = errors.New("verif: injected write failure")

// Call is one observed EventEncoder.Encode invocation.
type Call struct {
	Seq    int64 // logical time at entry
	SeqRet int64 // logical time at return
	Gid    int64
	Ptr    *auditevent.AuditEvent
	Snap   []byte                // JSON snapshot taken at call time
	Ev     auditevent.AuditEvent // decoded snapshot
	Failed bool
}

// Rec is a thread-safe auditevent.EventEncoder that records every call.
type Rec struct {
	mu     sync.Mutex
	calls  []Call
	FailAt int // 1-based index of the Encode call that fails; 0 = never
	// FailFrom: every call with index >= FailFrom fails (0 = off).
	FailFrom int
	// Gate, when non-nil, blocks every Encode until it is closed.
	Gate chan struct{}
	// Entered is signalled (non-blocking) when an Encode call starts.
	Entered chan struct{}
	NoGid   bool
	// Pre, when non-nil, runs at the start of every Encode (observer hook).
	Pre func()

	holdMu sync.Mutex
	hold   chan struct{}
}

// Hold makes every Encode that starts from now on block until Release.
func (r *Rec) Hold() {
	r.holdMu.Lock()
	if r.hold == nil {
		r.hold = make(chan struct{})
	}
	r.holdMu.Unlock()
}

// Release lets held Encode calls go on.
func (r *Rec) Release() {
	r.holdMu.Lock()
	if r.hold != nil {
		close(r.hold)
		r.hold = nil
	}
	r.holdMu.Unlock()
}

func NewRec() *Rec { return &Rec{} }

func (r *Rec) Encode(v any) error {
	if r.Pre != nil {
		r.Pre()
	}
	seq := Tick()
	var gid int64
	if !r.NoGid {
		gid = Goid()
	}
	if r.Entered != nil {
		select {
		case r.Entered <- struct{}{}:
		default:
		}
	}
	if r.Gate != nil {
		<-r.Gate
	}
	r.holdMu.Lock()
	h := r.hold
	r.holdMu.Unlock()
	if h != nil {
		<-h
	}
	c := Call{Seq: seq, Gid: gid}
	if p, ok := v.(*auditevent.AuditEvent); ok {
		c.Ptr = p
	}
	b, err := json.Marshal(v)
	if err == nil {
		c.Snap = b
		_ = json.Unmarshal(b, &c.Ev)
	}
	r.mu.Lock()
	idx := len(r.calls) + 1
	fail := (r.FailAt != 0 && idx == r.FailAt) || (r.FailFrom != 0 && idx >= r.FailFrom)
	c.Failed = fail
	c.SeqRet = Tick()
	r.calls = append(r.calls, c)
	r.mu.Unlock()
	if fail {
		return ErrInjected
	}
	return err
}

// Calls returns a copy of the calls recorded so far.
func (r *Rec) Calls() []Call {
	r.mu.Lock()
	defer r.mu.Unlock()
	out := make([]Call, len(r.calls))
	copy(out, r.calls)
	return out
}

func (r *Rec) Len() int {
	r.mu.Lock()
	defer r.mu.Unlock()
	return len(r.calls)
}

// Since returns the calls with index >= n.
func (r *Rec) Since(n int) []Call {
	r.mu.Lock()
	defer r.mu.Unlock()
	out := make([]Call, len(r.calls)-n)
	copy(out, r.calls[n:])
	return out
}

func (r *Rec) Writer() *auditevent.EventWriter { return auditevent.NewAuditEventWriter(r) }
