package vlib

import (
	"encoding/hex"
	"fmt"
	"strings"
	"time"

	"github.com/elastic/go-libaudit/v2/aucoalesce"
	"github.com/elastic/go-libaudit/v2/auparse"
)

// BaseTS is the base of generated audit timestamps (ms resolution).
const BaseTSms int64 = 1668460000000

// AuHeader renders the msg=audit(sec.ms:seq) header.
func AuHeader(tsms int64, seq uint32) string {
	return fmt.Sprintf("msg=audit(%d.%03d:%d):", tsms/1000, tsms%1000, seq)
}

// AuLogin renders a kernel LOGIN record.
func AuLogin(tsms int64, seq uint32, pid string, ses string) string {
	return AuLoginFrom(tsms, seq, pid, ses, "4294967295")
}

// AuLoginFrom: a LOGIN record of a process that already lived in audit session
// oldSes (su -l, sudo -i, a service restarted by hand from a login shell).
func AuLoginFrom(tsms int64, seq uint32, pid string, ses string, oldSes string) string {
	oldAuid := "4294967295"
	if oldSes != "4294967295" {
		oldAuid = "1000"
	}
	return fmt.Sprintf("type=LOGIN %s pid=%s uid=0 old-auid=%s auid=1000 tty=(none) old-ses=%s ses=%s res=1",
		AuHeader(tsms, seq), pid, oldAuid, oldSes, ses)
}

// AuUser renders a user-space record (USER_START, USER_END, CRED_ACQ,
// CRED_DISP, USER_LOGIN, USER_ACCT, USER_CMD, CRED_REFR ...).
// ses=="" omits the field. res is the literal token (success, failed, 1, 0).
func AuUser(typ string, tsms int64, seq uint32, pid int, ses string, op string, res string) string {
	sesf := ""
	if ses != "" {
		sesf = " ses=" + ses
	}
	resf := ""
	if res != "" {
		resf = " res=" + res
	}
	if typ == "USER_CMD" {
		// sudo's record: cwd, hex-encoded cmd, exe, terminal
		return fmt.Sprintf("type=USER_CMD %s pid=%d uid=1000 auid=1000%s msg='cwd=\"/home/someuser\" cmd=%s exe=\"/usr/bin/sudo\" terminal=pts/0%s'",
			AuHeader(tsms, seq), pid, sesf, strings.ToUpper(hex.EncodeToString([]byte("ls -l "+op))), resf)
	}
	return fmt.Sprintf("type=%s %s pid=%d uid=0 auid=1000%s msg='op=%s grantors=pam_permit acct=\"someuser\" exe=\"/usr/sbin/sshd\" hostname=127.0.0.1 addr=127.0.0.1 terminal=ssh%s'",
		typ, AuHeader(tsms, seq), pid, sesf, op, resf)
}

// ExecSpec describes a compound execve event.
type ExecSpec struct {
	TSms    int64
	Seq     uint32
	PID     int
	Ses     string // "" omits
	Success string // yes | no | "" (omitted)
	Exe     string
	Args    []string // nil => no EXECVE record
	HexArgs bool     // render args containing spaces hex-encoded (as the kernel does)
	Paths   []string
	Cwd     string
	EOE     bool // terminate by EOE instead of PROCTITLE
}

// Lines renders the record group, in kernel order.
func (e ExecSpec) Lines() []string {
	h := AuHeader(e.TSms, e.Seq)
	var out []string
	suc := ""
	if e.Success != "" {
		suc = " success=" + e.Success
	}
	ses := ""
	if e.Ses != "" {
		ses = " ses=" + e.Ses
	}
	exit := "0"
	if e.Success == "no" {
		exit = "-13"
	}
	out = append(out, fmt.Sprintf("type=SYSCALL %s arch=c000003e syscall=59%s exit=%s a0=557fa8254980 a1=557fa827a720 a2=557fa82549c0 a3=8 items=%d ppid=803 pid=%d auid=1000 uid=1000 gid=1000 euid=1000 suid=1000 fsuid=1000 egid=1000 sgid=1000 fsgid=1000 tty=pts3%s comm=\"%s\" exe=\"%s\" key=\"operator-commands\"",
		h, suc, exit, len(e.Paths), e.PID, ses, baseName(e.Exe), e.Exe))
	if e.Args != nil {
		var sb strings.Builder
		fmt.Fprintf(&sb, "type=EXECVE %s argc=%d", h, len(e.Args))
		for i, a := range e.Args {
			if e.HexArgs && strings.ContainsAny(a, " \"") {
				fmt.Fprintf(&sb, " a%d=%s", i, strings.ToUpper(hex.EncodeToString([]byte(a))))
			} else {
				fmt.Fprintf(&sb, " a%d=\"%s\"", i, a)
			}
		}
		out = append(out, sb.String())
	}
	if e.Cwd != "" {
		out = append(out, fmt.Sprintf("type=CWD %s cwd=\"%s\"", h, e.Cwd))
	}
	for i, p := range e.Paths {
		out = append(out, fmt.Sprintf("type=PATH %s item=%d name=\"%s\" inode=1453124 dev=fd:00 mode=0100755 ouid=0 ogid=0 rdev=00:00 nametype=NORMAL cap_fp=0 cap_fi=0 cap_fe=0 cap_fver=0 cap_frootid=0",
			h, i, p))
	}
	if e.EOE {
		out = append(out, fmt.Sprintf("type=EOE %s ", h))
	} else {
		title := e.Exe
		if len(e.Args) > 0 {
			title = strings.Join(e.Args, "\x00")
		}
		out = append(out, fmt.Sprintf("type=PROCTITLE %s proctitle=%s", h, strings.ToUpper(hex.EncodeToString([]byte(title)))))
	}
	return out
}

func baseName(p string) string {
	if i := strings.LastIndexByte(p, '/'); i >= 0 {
		return p[i+1:]
	}
	return p
}

// APIEvent builds the coalesced event the reassembler callback would hand to
// the correlator, for the correlator-API level monitors.
func APIEvent(ses string, typ auparse.AuditMessageType, pid string, tsms int64, seq uint32, result string) *aucoalesce.Event {
	return &aucoalesce.Event{
		Timestamp: time.UnixMilli(tsms).UTC(),
		Sequence:  seq,
		Type:      typ,
		Result:    result,
		Session:   ses,
		Process:   aucoalesce.Process{PID: pid},
		Summary: aucoalesce.Summary{
			Action: "act-" + typ.String(),
			How:    "/usr/sbin/sshd",
			Object: aucoalesce.Object{Type: "user-session", Primary: "ssh"},
		},
	}
}
