package vlib

import (
	"fmt"
	"strconv"
	"strings"
)

// SSH message generator. A case is a record of fields plus the rendered
// message (format strings quoted from OpenSSH's auth.c in openssh_regex.go);
// the expected event is built from the fields, never by parsing the message.

// ExpEvent is the expected UserLogin event, by construction.
type ExpEvent struct {
	Outcome   string
	Subjects  map[string]string
	SrcValue  string
	SrcExtra  map[string]string // nil: no extra
	Data      map[string]string // nil: no data
	MetaExtra map[string]string // nil: no metadata.extra
}

// SshCase is one generated message.
type SshCase struct {
	Form     string            `json:"form"`
	Fields   map[string]string `json:"fields"`
	Msg      string            `json:"msg"`
	Accepted bool              `json:"accepted"`
	// CredUserID expected on the forwarded login (accepted forms).
	CredUserID string `json:"cred,omitempty"`
	// Method/outcome label expected on the counter.
	Method string `json:"method"`
	Class  string `json:"class"` // field-shape class for coverage counting
}

// Forms, in the order of the property statement.
var SshForms = []string{
	"accepted-publickey", "accepted-cert", "accepted-password",
	"certificate-invalid", "invalid-user",
	"not-in-allowusers", "shell-not-exist", "shell-not-executable", "in-denyusers",
	"not-in-any-group", "group-in-denygroups", "not-in-allowgroups",
	"root-login-refused", "bad-owner-or-modes",
	"nasty-ptr", "reverse-mapping-failed", "does-not-map-back",
	"max-auth-attempts", "revoked-key", "revoked-key-error", "failed-password",
}

// SshKeywords are the recognised message keywords (C11/C19).
var SshKeywords = []string{
	"Accepted publickey", "Accepted password", "Certificate invalid", "Invalid user", "User ",
	"ROOT LOGIN REFUSED FROM", "Authentication refused for", "Nasty PTR record",
	"reverse mapping checking getaddrinfo for", "Address ", "maximum authentication attempts exceeded for",
	"Authentication key", "Error checking authentication key", "Failed password for",
}

var (
	PoolUsers = []string{"root", "core", "auditomalditotesting", "a", "user.name", "first_last", "user@example.com",
		"web-admin", "machine$", "üser", "用户", "u1234", "_svc", "A.B-c_d@e$", "007", "n" + strings.Repeat("x", 31), "Ωmega-1",
		"u" + strings.Repeat("0123456789", 9) + "123456789", // sshd's %.100s limit
		// account names that are words of the message grammar
		"ID", "svcID", "CA", "serial", "port", "from", "ssh2", "user", "invalid", "by", "Accepted", "publickey", "for"}
	PoolIPs = []string{"127.0.0.1", "0.0.0.0", "255.255.255.255", "10.1.2.3", "192.168.100.200", "::1", "2001:db8::1",
		"2001:0db8:0000:0000:0000:ff00:0042:8329", "::ffff:192.0.2.1", "fe80::1%eth0", "fe80::a00:27ff:fe4e:66a1%enp0s3"}
	PoolHosts = []string{"host.example.com", "localhost", "a-b.c-d.example", "xn--nxasmq6b.example", "UPPER.Example.ORG", "h",
		strings.Repeat("long-host-label.", 11) + "example.net"} // ~190 characters (%.200s)
	PoolPorts = []string{"0", "1", "22", "1023", "1024", "32768", "49152", "65534", "65535"}
	PoolKeyT  = []string{"RSA", "DSA", "ECDSA", "ED25519", "ECDSA-SK", "ED25519-SK", "XMSS"}
	PoolKeyID = []string{"foo@bar.com", "user name", "id (with parens)", "serial", "a (serial 7)", "x serial y",
		"ID inside ID", "role=admin,team=sre", "ключ", "(serial 0)", "trailing space ", "a  b", "CA RSA"}
	PoolSerial = []string{"0", "1", "350", "4294967295", "4294967296", "9223372036854775807", "9223372036854775808", "18446744073709551615"}
	PoolShell  = []string{"/bin/bash", "/usr/bin/zsh", "/opt/my shell/sh", "/bin/false", "/sbin/nologin", "/usr/local/bin/fish", "sh"}
	PoolPath   = []string{"/home/u/.ssh/authorized_keys", "/home/user name/.ssh/authorized_keys", "/etc/ssh/revoked_keys",
		"/etc/ssh/revoked keys", "/", "/root/.ssh/authorized_keys2", "/данные/keys",
		// sshd builds these as home + "/" + file: not in canonical form when home is "/" or ends in "/"
		"//.ssh/authorized_keys", "/home/cb//.ssh/authorized_keys", "/home/u/./.ssh/authorized_keys", "/home/u/../v/.ssh/authorized_keys",
		"/var/empty/", "relative/authorized_keys", "/home/u/.ssh/authorized_keys.", "/home/%u/.ssh/%k"}
	PoolDNS = []string{"host.example.com", "evil.example.org", "a.b", "xn--e1afmkfd.example", "bad_name!.example", "UPPER.example", "x",
		strings.Repeat("sub-domain-label.", 18) + "example.org", strings.Repeat("a234567890.", 62) + "example"} // ~320 and ~690 characters (sshd prints up to %.700s)
	PoolReason = []string{"expired", "not yet valid", "name is not a listed principal", "corrupt signature",
		"Certificate lacks principal list", "reason with  double space", "причина", "a: b: c"}
)

func b64fp(r *Rng) string {
	const al = "ABCDEFGHIJKLMNOPQRSTUVWXYZabcdefghijklmnopqrstuvwxyz0123456789+/"
	b := make([]byte, 43)
	for i := range b {
		b[i] = al[r.Intn(len(al))]
	}
	return string(b)
}

func md5fp(r *Rng) string {
	p := make([]string, 16)
	for i := range p {
		p[i] = fmt.Sprintf("%02x", r.Intn(256))
	}
	return strings.Join(p, ":")
}

// fingerprint returns (hash name, digest).
func fingerprint(r *Rng) (string, string) {
	switch r.Intn(4) {
	case 0:
		return "MD5", md5fp(r)
	case 1:
		return "SHA512", b64fp(r) + b64fp(r)
	}
	return "SHA256", b64fp(r)
}

func addrKind(a string) string {
	switch {
	case strings.Contains(a, "%"):
		return "v6zone"
	case strings.Contains(a, "::ffff:"):
		return "v4mapped"
	case strings.Contains(a, ":"):
		return "v6"
	case strings.Count(a, ".") == 3 && a[0] >= '0' && a[0] <= '9':
		return "v4"
	}
	return "host"
}

func nameClass(u string) string {
	c := ""
	for _, ch := range u {
		switch {
		case ch > 127:
			c += "U"
		case strings.ContainsRune("_.@-$", ch):
			c += "P"
		case ch >= '0' && ch <= '9':
			c += "D"
		}
	}
	if len(c) > 2 {
		c = c[:2]
	}
	return c
}

func idClass(s string) string {
	c := ""
	if strings.Contains(s, " ") {
		c += "s"
	}
	if strings.Contains(s, "(") {
		c += "p"
	}
	if strings.Contains(s, "serial") {
		c += "S"
	}
	return c
}

func portClass(p string) string {
	n, _ := strconv.Atoi(p)
	switch {
	case n == 0:
		return "0"
	case n < 1024:
		return "lo"
	case n >= 65534:
		return "max"
	}
	return "hi"
}

// pick draws from a pool; idx>=0 forces that pool element (each-choice coverage).
func pick(r *Rng, pool []string, idx int) string {
	if idx >= 0 {
		return pool[idx%len(pool)]
	}
	return pool[r.Intn(len(pool))]
}

func randPort(r *Rng) string {
	if r.Chance(50) {
		return PickOne(r, PoolPorts)
	}
	return strconv.Itoa(r.Intn(65536))
}

func randIP(r *Rng) string {
	if r.Chance(60) {
		return PickOne(r, PoolIPs)
	}
	if r.Bool() {
		return fmt.Sprintf("%d.%d.%d.%d", r.Intn(256), r.Intn(256), r.Intn(256), r.Intn(256))
	}
	return fmt.Sprintf("2001:db8:%x::%x", r.Intn(65536), r.Intn(65536))
}

func randUser(r *Rng) string {
	if r.Chance(60) {
		return PickOne(r, PoolUsers)
	}
	const al = "abcdefghijklmnopqrstuvwxyzABCDEFGHIJKLMNOPQRSTUVWXYZ0123456789_.@-"
	n := 1 + r.Intn(20)
	b := make([]byte, n)
	for i := range b {
		b[i] = al[r.Intn(len(al))]
	}
	if b[0] == '-' {
		b[0] = 'x'
	}
	s := string(b)
	if r.Chance(10) {
		s += "$"
	}
	if r.Chance(10) {
		s = "é" + s
	}
	return s
}

// GenSsh renders one case of the given form. force selects (field index,
// pool index) for each-choice coverage; pass -1,-1 for a fully random case.
func GenSsh(r *Rng, form string, forceField, forceIdx int) SshCase {
	f := func(field int, pool []string) int {
		if field == forceField {
			return forceIdx
		}
		return -1
	}
	c := SshCase{Form: form, Fields: map[string]string{}, Method: "unknown"}
	user := randUser(r)
	if i := f(0, PoolUsers); i >= 0 {
		user = pick(r, PoolUsers, i)
	}
	ip := randIP(r)
	if i := f(1, PoolIPs); i >= 0 {
		ip = pick(r, PoolIPs, i)
	}
	port := randPort(r)
	if i := f(2, PoolPorts); i >= 0 {
		port = pick(r, PoolPorts, i)
	}
	host := ip
	if r.Chance(50) {
		host = PickOne(r, PoolHosts)
	}
	if i := f(3, PoolHosts); i >= 0 {
		host = pick(r, PoolHosts, i)
	}
	if forceField == 1 {
		host = ip
	}
	switch form {
	case "accepted-publickey", "accepted-cert":
		kt := pick(r, PoolKeyT, f(4, PoolKeyT))
		hn, fp := fingerprint(r)
		if form == "accepted-cert" {
			kt += "-CERT"
		}
		c.Fields = map[string]string{"user": user, "addr": ip, "port": port, "keytype": kt, "hash": hn, "fp": fp}
		c.Msg = fmt.Sprintf("Accepted publickey for %s from %s port %s ssh2: %s %s:%s", user, ip, port, kt, hn, fp)
		c.Accepted = true
		c.CredUserID = "unknown"
		c.Method = "ssh-key"
		c.Class = strings.Join([]string{form, addrKind(ip), nameClass(user), kt, hn, portClass(port)}, "|")
		if form == "accepted-cert" {
			id := pick(r, PoolKeyID, f(5, PoolKeyID))
			serial := pick(r, PoolSerial, f(6, PoolSerial))
			cat := pick(r, PoolKeyT, -1)
			chn, cfp := fingerprint(r)
			ca := fmt.Sprintf("CA %s %s:%s", cat, chn, cfp)
			c.Fields["keyid"], c.Fields["serial"], c.Fields["ca"] = id, serial, ca
			c.Msg += fmt.Sprintf(" ID %s (serial %s) %s", id, serial, ca)
			c.CredUserID = id
			c.Method = "ssh-cert"
			c.Class += "|" + idClass(id) + "|" + strconv.Itoa(len(serial))
		}
	case "accepted-password":
		c.Fields = map[string]string{"user": user, "addr": ip, "port": port}
		c.Msg = fmt.Sprintf("Accepted password for %s from %s port %s ssh2", user, ip, port)
		c.Accepted = true
		c.CredUserID = "unknown"
		c.Method = "password"
		c.Class = strings.Join([]string{form, addrKind(ip), nameClass(user), portClass(port)}, "|")
	case "certificate-invalid":
		reason := pick(r, PoolReason, f(7, PoolReason))
		c.Fields = map[string]string{"reason": reason}
		c.Msg = "Certificate invalid: " + reason
		c.Method = "ssh-cert"
		c.Class = form + "|" + idClass(reason)
	case "invalid-user":
		c.Fields = map[string]string{"user": user, "addr": ip, "port": port}
		c.Msg = fmt.Sprintf("Invalid user %s from %s port %s", user, ip, port)
		c.Class = strings.Join([]string{form, addrKind(ip), nameClass(user), portClass(port)}, "|")
	case "not-in-allowusers", "in-denyusers", "not-in-any-group", "group-in-denygroups", "not-in-allowgroups":
		tail := map[string]string{
			"not-in-allowusers":   "not listed in AllowUsers",
			"in-denyusers":        "listed in DenyUsers",
			"not-in-any-group":    "not in any group",
			"group-in-denygroups": "a group is listed in DenyGroups",
			"not-in-allowgroups":  "none of user's groups are listed in AllowGroups",
		}[form]
		c.Fields = map[string]string{"user": user, "host": host}
		c.Msg = fmt.Sprintf("User %s from %s not allowed because %s", user, host, tail)
		c.Class = strings.Join([]string{form, addrKind(host), nameClass(user)}, "|")
	case "shell-not-exist", "shell-not-executable":
		sh := pick(r, PoolShell, f(8, PoolShell))
		tail := "does not exist"
		if form == "shell-not-executable" {
			tail = "is not executable"
		}
		c.Fields = map[string]string{"user": user, "shell": sh}
		c.Msg = fmt.Sprintf("User %s not allowed because shell %s %s", user, sh, tail)
		c.Class = strings.Join([]string{form, nameClass(user), idClass(sh)}, "|")
	case "root-login-refused":
		c.Fields = map[string]string{"addr": ip, "port": port}
		c.Msg = fmt.Sprintf("ROOT LOGIN REFUSED FROM %s port %s", ip, port)
		c.Class = strings.Join([]string{form, addrKind(ip), portClass(port)}, "|")
	case "bad-owner-or-modes":
		p := pick(r, PoolPath, f(9, PoolPath))
		c.Fields = map[string]string{"user": user, "path": p}
		c.Msg = fmt.Sprintf("Authentication refused for %s: bad owner or modes for %s", user, p)
		c.Class = strings.Join([]string{form, nameClass(user), idClass(p)}, "|")
	case "nasty-ptr", "reverse-mapping-failed", "does-not-map-back":
		dns := pick(r, PoolDNS, f(10, PoolDNS))
		c.Fields = map[string]string{"dns": dns, "addr": ip}
		switch form {
		case "nasty-ptr":
			c.Msg = fmt.Sprintf("Nasty PTR record \"%s\" is set up for %s, ignoring", dns, ip)
		case "reverse-mapping-failed":
			c.Msg = fmt.Sprintf("reverse mapping checking getaddrinfo for %s [%s] failed.", dns, ip)
		default:
			c.Msg = fmt.Sprintf("Address %s maps to %s, but this does not map back to the address.", ip, dns)
		}
		c.Class = strings.Join([]string{form, addrKind(ip), nameClass(dns)}, "|")
	case "max-auth-attempts":
		c.Fields = map[string]string{"user": user, "addr": ip, "port": port}
		c.Msg = fmt.Sprintf("maximum authentication attempts exceeded for %s from %s port %s ssh2", user, ip, port)
		c.Class = strings.Join([]string{form, addrKind(ip), nameClass(user), portClass(port)}, "|")
	case "failed-password":
		c.Fields = map[string]string{"user": user, "addr": ip, "port": port}
		c.Msg = fmt.Sprintf("Failed password for %s from %s port %s ssh2", user, ip, port)
		c.Class = strings.Join([]string{form, addrKind(ip), nameClass(user), portClass(port)}, "|")
	case "revoked-key", "revoked-key-error":
		kt := pick(r, PoolKeyT, f(4, PoolKeyT))
		if r.Chance(30) {
			kt += "-CERT"
		}
		hn, fp := fingerprint(r)
		p := pick(r, PoolPath, f(9, PoolPath))
		c.Fields = map[string]string{"keytype": kt, "fingerprint": hn + ":" + fp, "path": p}
		if form == "revoked-key" {
			c.Msg = fmt.Sprintf("Authentication key %s %s:%s revoked by file %s", kt, hn, fp, p)
		} else {
			c.Msg = fmt.Sprintf("Error checking authentication key %s %s:%s in revoked keys file %s", kt, hn, fp, p)
		}
		c.Class = strings.Join([]string{form, kt, hn, idClass(p)}, "|")
	default:
		panic("unknown form " + form)
	}
	return c
}

// Expected builds the expected event for a case and the line's PID token.
func (c SshCase) Expected(pid string) ExpEvent {
	F := c.Fields
	e := ExpEvent{Outcome: "failed"}
	unk := "unknown"
	switch c.Form {
	case "accepted-publickey":
		e.Outcome = "succeeded"
		e.Subjects = map[string]string{"loggedAs": F["user"], "userID": unk, "pid": pid}
		e.SrcValue, e.SrcExtra = F["addr"], map[string]string{"port": F["port"]}
		e.Data = map[string]string{"Alg": F["keytype"] + " " + F["hash"], "SSHKeySum": F["fp"]}
	case "accepted-cert":
		e.Outcome = "succeeded"
		e.Subjects = map[string]string{"loggedAs": F["user"], "userID": F["keyid"], "pid": pid}
		e.SrcValue, e.SrcExtra = F["addr"], map[string]string{"port": F["port"]}
		e.Data = map[string]string{"Alg": F["keytype"] + " " + F["hash"], "SSHKeySum": F["fp"], "Serial": F["serial"], "CA": F["ca"]}
	case "accepted-password":
		e.Outcome = "succeeded"
		e.Subjects = map[string]string{"loggedAs": F["user"], "userID": unk, "pid": pid}
		e.SrcValue, e.SrcExtra = F["addr"], map[string]string{"port": F["port"]}
	case "certificate-invalid":
		e.Subjects = map[string]string{"loggedAs": unk, "userID": unk, "pid": pid}
		e.SrcValue, e.SrcExtra = unk, map[string]string{"port": unk}
		e.Data = map[string]string{"error": "certificate invalid", "reason": F["reason"]}
	case "invalid-user", "max-auth-attempts", "failed-password":
		e.Subjects = map[string]string{"loggedAs": F["user"], "userID": unk, "pid": pid}
		e.SrcValue, e.SrcExtra = F["addr"], map[string]string{"port": F["port"]}
	case "not-in-allowusers", "in-denyusers", "not-in-any-group", "group-in-denygroups", "not-in-allowgroups":
		e.Subjects = map[string]string{"loggedAs": F["user"], "userID": unk, "pid": pid}
		e.SrcValue = F["host"]
	case "shell-not-exist", "shell-not-executable":
		e.Subjects = map[string]string{"loggedAs": F["user"], "userID": unk, "pid": pid}
		e.SrcValue = unk
		e.MetaExtra = map[string]string{"shell": F["shell"]}
	case "root-login-refused":
		e.Subjects = map[string]string{"loggedAs": "root", "userID": unk, "pid": pid}
		e.SrcValue, e.SrcExtra = F["addr"], map[string]string{"port": F["port"]}
	case "bad-owner-or-modes":
		e.Subjects = map[string]string{"loggedAs": F["user"], "userID": unk, "pid": pid, "filePath": F["path"]}
		e.SrcValue = unk
	case "nasty-ptr", "reverse-mapping-failed", "does-not-map-back":
		e.Subjects = map[string]string{"loggedAs": unk, "userID": unk, "pid": pid}
		e.SrcValue, e.SrcExtra = F["addr"], map[string]string{"dns": F["dns"]}
	case "revoked-key", "revoked-key-error":
		e.Subjects = map[string]string{"loggedAs": unk, "userID": unk, "pid": pid,
			"keyType": F["keytype"], "fingerprint": F["fingerprint"], "filePath": F["path"]}
		e.SrcValue = unk
	}
	return e
}

// ForceSpace lists, per form, the (field index, pool size) pairs used for
// each-choice coverage of the boundary pools.
func ForceSpace(form string) [][2]int {
	u, ip, po, ho := [2]int{0, len(PoolUsers)}, [2]int{1, len(PoolIPs)}, [2]int{2, len(PoolPorts)}, [2]int{3, len(PoolHosts)}
	switch form {
	case "accepted-publickey":
		return [][2]int{u, ip, po, {4, len(PoolKeyT)}}
	case "accepted-cert":
		return [][2]int{u, ip, po, {4, len(PoolKeyT)}, {5, len(PoolKeyID)}, {6, len(PoolSerial)}}
	case "accepted-password", "invalid-user", "max-auth-attempts", "failed-password":
		return [][2]int{u, ip, po}
	case "certificate-invalid":
		return [][2]int{{7, len(PoolReason)}}
	case "not-in-allowusers", "in-denyusers", "not-in-any-group", "group-in-denygroups", "not-in-allowgroups":
		return [][2]int{u, ip, ho}
	case "shell-not-exist", "shell-not-executable":
		return [][2]int{u, {8, len(PoolShell)}}
	case "root-login-refused":
		return [][2]int{ip, po}
	case "bad-owner-or-modes":
		return [][2]int{u, {9, len(PoolPath)}}
	case "nasty-ptr", "reverse-mapping-failed", "does-not-map-back":
		return [][2]int{ip, {10, len(PoolDNS)}}
	case "revoked-key", "revoked-key-error":
		return [][2]int{{4, len(PoolKeyT)}, {9, len(PoolPath)}}
	}
	return nil
}

// SshCorpusT is the case list for (seed, n): first each-choice coverage of
// every boundary pool of every form, then seeded random cases, n in total.
// Only the each-choice prefix is kept in memory; a random case is a function
// of (seed, stream, index) alone, so every process sees the same list without
// any of them having to build all of it.
type SshCorpusT struct {
	seed   int64
	stream string
	n      int
	forms  []string
	prefix []SshCase
}

func NewSshCorpus(seed int64, stream string, n int, forms []string) *SshCorpusT {
	c := &SshCorpusT{seed: seed, stream: stream, n: n, forms: forms}
	r := NewRng(seed, stream)
	for _, form := range forms {
		for _, fs := range ForceSpace(form) {
			for i := 0; i < fs[1]; i++ {
				c.prefix = append(c.prefix, GenSsh(r, form, fs[0], i))
			}
		}
	}
	return c
}

func (c *SshCorpusT) Len() int {
	if len(c.prefix) > c.n {
		return len(c.prefix)
	}
	return c.n
}

// PrefixLen is the number of each-choice cases at the start of the list.
func (c *SshCorpusT) PrefixLen() int { return len(c.prefix) }

func (c *SshCorpusT) At(i int) SshCase {
	if i < len(c.prefix) {
		return c.prefix[i]
	}
	return GenSsh(NewRng(c.seed, fmt.Sprintf("%s/%d", c.stream, i)), c.forms[i%len(c.forms)], -1, -1)
}
