#!/usr/bin/env python3
"""Generates /verif/MANIFEST.json from the table below (kept valid at all times)."""
import json, subprocess, os
V = os.path.dirname(os.path.dirname(os.path.abspath(__file__)))

CHECKS = {
 "C01": dict(engine="mon-correlator", cat="exploration", tech="runtime trace monitor over recorded EventEncoder calls (bounded-exhaustive + seeded histories; API, parser/reassembler, daemon)",
   text="Every history up to the stated length over a two-session alphabet (each prefix checked), plus seeded random multi-session histories, is executed against the real tracker, the real Auditd.Read and (thorough) the built daemon; every emitted UserAction's identity is compared with the login the harness delivered for the PID of the session's LOGIN record. Held on what was executed; exhaustive only for the stated bound. Generated histories vary what real logs vary: timestamps that do not grow with delivery order, one session in three sharing account, address and host with another, every third record a failure, CRED_DISP from other pids than the login's, sessions holding hundreds of records.",
   note="Trusts the harness's own bookkeeping of what it delivered; unique identities/session ids/PIDs per history; auditevent and go-libaudit are the real libraries.", ref="4 C01"),
 "C02": dict(engine="mon-correlator", cat="exploration", tech="runtime trace monitor: exactly-once/in-order per session over recorded EventEncoder calls",
   text="Same executions as C01 with the login placed at every split point of the session's events and 1-4 sessions pending; per session the emitted list must equal the delivered list from the LOGIN record to the CRED_DISP, checked after every operation. A concurrent-delivery phase (events from one goroutine, login from another, delays at the hooked lock sites) checks the same list under real parallelism; cut-offs of harmless cleanups lie one second before process start, so a correlator that aged entries by record time would lose them. Thorough adds the built daemon.",
   note="Order means delivery order; histories through Auditd.Read finish before the first reassembler maintenance tick (else retried/inconclusive).", ref="4 C02"),
 "C04": dict(engine="mon-correlator", cat="exploration", tech="online safety monitor evaluated after every operation of generated histories",
   text="Histories mixing correlated sessions with session-less, unset, unknown-session, non-LOGIN-opened and half-only sessions; after each operation everything emitted so far must belong to a session whose LOGIN record and login were both delivered by then, with that session's identity. The PID-reuse histories of C09 run here too, for the clause about events after a session's CRED_DISP (a foreign identity can only get there through reuse).",
   note="Necessary condition only (cleanup can only strengthen it); post-CRED_DISP events are checked for identity only.", ref="4 C04"),
 "C09": dict(engine="mon-correlator", cat="exploration", tech="runtime trace monitor over PID-reuse histories (bounded-exhaustive + seeded)",
   text="All placements of the first session's login (incl. after its CRED_DISP), of the second session's login, of 0-2 stray events and of one cleanup, plus random three-generation histories, at the tracker API and through Auditd.Read; the later generation must be emitted exactly once under its own identity and strays never under a foreign identity.",
   note="Later generations start only after the earlier session's CRED_DISP and login were both delivered.", ref="4 C09"),
 "C16": dict(engine="mon-correlator", cat="exploration", tech="runtime monitor: cleanup cut-offs from real clock readings, behavioural observation of pending halves; thorough adds a real-time run of Auditd.Read",
   text="All arrival orders of up to N halves of three PIDs with a cleanup pair at every gap and every cut-off between earlier arrivals; whether a pending half survived is observed by delivering the other half. Concurrent programs (second half arrives || cleanup) are explored under the steer scheduler and free-running. The ticker/cut-off wiring of Auditd.Read is exercised in the quick tier at another time scale (monitor rebuilt with go build -overlay, only the interval constant replaced by 2 s) and in the thorough tier in real time across the one-minute ticker.",
   note="Wall clock must not step backwards within a history; the 60-120 s band is unspecified.", ref="4 C16"),
 "C05": dict(engine="mon-sshd", cat="fault_enumeration", tech="sequence monitor over recorder + harness-owned logins channel under the race detector; fault injection at the event write; cancellation in a state-confirmed blocked hand-off",
   text="Every accepted branch x PID tokens: exactly one succeeded event, written before the hand-off (channel empty at every write; logical-clock stamps on an unbuffered channel), one login with the line's PID, the certificate key id (or unknown) and the very pointer that was written. Failure/unrecognised lines never forward. Write failure on every form: error returned wrapping the cause, nothing forwarded. Cancellation before the call and while parked in the hand-off (state confirmed from the goroutine dump): returns, nothing forwarded. Slow correlator: nobody receives for a dwell (1.5 s quick, 12 s thorough) while the context is live - the call must still be blocked and must then deliver. Slow-correlator phase: 64 accepted lines, half through SyslogIngester.Process, nobody receives for 3 s / 12 s; the hand-off must still be pending and deliver once the correlator is ready.",
   note="-race build in child processes; the blocked state is confirmed, not assumed.", ref="4 C05"),
 "C06": dict(engine="mon-sshd", cat="exploration", tech="reference-constructor oracle over generated sshd messages (expected event built from the generated fields), child-process batches",
   text="21 message forms x each-choice coverage of all boundary pools, then seeded random field values; exactly one event per line, compared field by field with the event constructed from the fields (never from a regular expression). One accepted line in eight runs with a cancelled context and an unready correlator: the event must be produced all the same.",
   note="Field domains are those of the quantifier; inherently ambiguous renderings are not generated.", ref="4 C06"),
 "C07": dict(engine="mon-sshd+mon-pipe", cat="exploration", tech="differential runtime monitor: same record through the processor directly and through SyslogIngester.Process / a real FIFO; audit parse with and without newline; FIFO->AuditLogIngester->Read vs direct feed",
   text="Both sides of each comparison are the real code; events and forwarded logins must be equal (modulo uuid and clock). Real FIFOs with five write chunkings, including records longer than the 4096-byte read buffer on both pipes; -race build for the FIFO parts. Accepted logins framed and direct while the login consumer is busy for 3 s (quick) / 12 s (thorough): the framed record must wait for the consumer exactly as the direct one does.",
   note="rsyslog frames records as '<pid> <msg>\\n'.", ref="4 C07"),
 "C11": dict(engine="mon-sshd", cat="exploration", tech="total-function monitor in child processes with write-ahead input log; plain and -race (checkptr) builds",
   text="Hostile lines (every byte-offset truncation of every form, random bytes incl. 64 KiB, mutations, broken certificate tails, hostile PID tokens) through the processor and the syslog ingester: no panic/crash, nil error, at most one event, login only with one succeeded event, event only after a recognised keyword, every extracted field a substring of the line or a fixed placeholder.",
   note="data.* values are compared after JSON coercion, allowing byte-offset slices that are not rune-aligned.", ref="4 C11"),
 "C17": dict(engine="mon-sshd", cat="exploration", tech="by-construction oracle over adversarial user names (generator knows the genuine peer)",
   text="invalid-user / failed-password / max-attempts lines in both renderings with adversarial names x IPv4/IPv6/zone peers x boundary ports, through the processor and the syslog ingester: exactly one failed event whose source address and port are the genuine ones.",
   note="Genuine peer addresses contain no spaces; names contain no newline, at most 100 characters.", ref="4 C17"),
 "C19": dict(engine="mon-sshd", cat="exploration", tech="Prometheus Gather() delta monitor on a private registry, per line",
   text="The C06 corpus and the C11 hostile corpus, one line at a time: an emitted UserLogin moves remote_logins_total by exactly one, under an outcome label matching the event and a method label matching the login kind; lines without a recognised keyword move nothing.",
   note="Single-threaded; counters read before and after each line.", ref="4 C19"),
 "C12": dict(engine="mon-pipe", cat="exploration", tech="reference-split oracle over real FIFO streams under the race detector; callback-error injection at every record index",
   text="Generated byte streams written to a real FIFO under five partitions with pauses; callback arguments must equal the delimiter-terminated records in order (modulo one trailing delimiter), the unterminated tail is never delivered, delivery stops at the injected callback error which is returned unchanged, end-of-stream is an error. One stream in eight stalls 400 ms in the middle of a record.",
   note="Both delimiter conventions are accepted for the callback argument.", ref="4 C12"),
 "C13": dict(engine="mon-pipe+mon-audit", cat="fault_enumeration", tech="state-confirmed cancellation injection with goroutine-dump hang classification; logical-clock check for deliveries after return; -race",
   text="Worker x blocking state x downstream capacity enumerated; each state is confirmed from the goroutine dump before cancel(); the worker must return (stuck = parked after the watchdog, otherwise inconclusive) and nothing may be delivered after the observed return. Audit processor states include parked in select with an unready correlator and flushing expired reassembler events; the ingester hand-off is cancelled in each of its four blocking branches; the processor under test is built with a context that is never cancelled, only the worker context is. Two repetitions in fifty cancel only after a long stay (2.5 s; thorough 12 s) in the confirmed state.",
   note="A blocked output writer is not among the listed states and is not injected.", ref="4 C13"),
 "C14": dict(engine="mon-audit", cat="exploration", tech="differential runtime monitor: emitted UserAction vs go-libaudit coalescing of fresh copies of the same lines; snapshot/aliasing check of the stored login",
   text="Sessions with a bound login and up to 500 record groups through Auditd.Read; every emitted UserAction is compared (type, component, timestamp, session, outcome per result token, action/how/object, process_args presence and content) with the event coalesced from fresh copies; the stored login is snapshotted before and after and the emitted subjects map is mutated to expose aliasing. In half of the batches the login arrives after 0-40 held groups, so the hold-queue flush is rendered and compared too. Kernel timestamps do not grow with delivery order (adjacent groups swapped, every fifth session backwards).",
   note="go-libaudit's aucoalesce is the oracle for the summary; the outcome expectation comes from the generator's token.", ref="4 C14"),
 "C15": dict(engine="mon-audit", cat="fault_enumeration", tech="fault enumeration on Auditd.Read under the race detector: malformed line / failing k-th write / invalid login / unparsable pid at every position, hang classification for swallowed faults; exactly-once whole-group check on interleaved streams",
   text="Each fault kind is injected at every position in turn; Read must return an error that identifies the line or wraps the injected cause (errors.Is/As); a fault that leaves Read parked is a violation. Clean and line-wise interleaved streams must yield exactly one UserAction per kernel event that reflects all its records. Every kernel event carries a unique marker that must reappear in exactly one UserAction; two events per millisecond share a timestamp; three or more events are interleaved line-wise; in late-login streams the hold queue is flushed through a failing writer.",
   note="auparse.ParseLogLine is the judge of well-formedness.", ref="4 C15"),
 "C08": dict(engine="mon-daemon", cat="fault_enumeration", tech="process-level monitor on the built binary: fault injection per cause x load, wait4 status, SIGQUIT goroutine-dump hang classification; saturation precondition observed from writer stalls",
   text="The daemon binary built from the working tree is run with two FIFOs; each failure cause (including either pipe's end-of-stream in the middle of a record) is injected at idle and (where meaningful) while a pumping writer keeps the audit pipe full (observed: write(2) hit EAGAIN >= 5 times). The process must exit (a non-exit is a violation only when the SIGQUIT dump shows main parked in errgroup.Wait and a worker parked) with non-zero status after failures. Saturation is measured: the pump feeds events of a correlated session, and the number of lines written to the pipe but not yet out as events must have stopped growing while write(2) keeps hitting EAGAIN (it then equals buffer capacity + pipe content; 10000 or more counts at once); causes are injected in-stream; every cause is also run with the other pipe still waiting for its writer. Thorough repeats x3 and with the -race build. Scenario dimensions also include the log level (debug/info), the metrics/health HTTP server with a scraper that stops reading its response, and a pipe whose writer never appears. Every cause also runs with -audit-metrics (one more member of the worker group). Both signals are also sent while the daemon still waits for its events output file to appear.",
   note="A write failure triggered by a correlated audit event cannot be arranged on the binary (/dev/full fails the login event first); it is enumerated in-process by C15.", ref="4 C08"),
 "C10": dict(engine="mon-daemon", cat="exploration", tech="offline checker over the daemon's output file after a marker-session barrier; in-process logical-clock order check under the race detector",
   text="Concurrent writers on both FIFOs (window 0..unbounded), 50-500 sessions, events up to 64 KiB; every output line must decode as exactly one JSON audit event with mandatory fields, no event key twice, each UserAction after the UserLogin carrying its identity. In-process: shared writer over the recorder, login line and LOGIN record released at the same instant, UserLogin write returns before any UserAction write with its identity starts. Thorough adds the -race daemon. A burst scenario keeps both pipelines writing for as long as the slower one needs, and a phased scenario delivers all audit records before any sshd line (every UserAction then comes from a hold-queue flush). Every other scenario starts on an events file that already holds an earlier run's output, which must stay intact.",
   note="O_APPEND single-write atomicity is an observed OS property.", ref="4 C10"),
 "C03": dict(engine="mon-sched", cat="exploration", tech="controlled-schedule execution of the real code at hooked lock sites (exhaustive DFS re-execution for small programs, seeded random/priority schedules for larger ones) with a relative-atomicity oracle; Go race detector on perturbed free-running executions, Auditd.Read wiring and the -race daemon",
   text="Twelve small concurrent programs on one tracker are explored exhaustively at lock-acquisition granularity: the emitted events must equal what some sequential merge of the same operations produces when run against the same code, and no schedule may deadlock. Larger programs run under seeded random and priority schedules. Under -race the same programs run free with delays injected at the lock sites, Auditd.Read gets both halves of a session at the same instant, and the -race daemon is driven with concurrent writers; any race report is a violation. Programs include a cleanup racing one session's correlation while the other session's pending login (P9) or pending LOGIN record (P10) waits, with the other half arriving afterwards, and a parked login expiring while its LOGIN record is processed, the login line being delivered again afterwards (P11, P12); trackers run with debug- and info-level loggers.",
   note="Schedule points are the hooked lock sites only; exhaustive at that granularity, sound for data-race-free code.", ref="4 C03, 3.1"),
 "C18": dict(engine="mon-health", cat="exploration", tech="sequential reference-model monitor (bounded-exhaustive), controlled-schedule exploration at hooked lock sites, porcupine linearizability checking of recorded histories, -race perturbed histories, logical-clock check of WaitForReady",
   text="Every Add/OnReady/Get sequence of the stated length against the 15-line map model; five concurrent programs explored exhaustively at lock granularity and 8-goroutine free-running histories under -race: every /readyz response is checked for internal consistency (code vs overall vs components) and every history for linearizability against the sequential map; WaitForReady must not fire before the last component was marked ready and must yield the context error when cancelled first. WaitForReady is also cancelled first and the components marked ready afterwards (the context error must still be what it yields).",
   note="Component names never equal the reserved key 'overall'.", ref="4 C18"),
 "C20": dict(engine="mon-dirreader", cat="exploration", tech="file-system-history oracle over an in-memory fs and injected fsnotify events (build-tag constructor), bounded-exhaustive + seeded; real fs for start-up order; -race",
   text="Every operation sequence of the stated length over append/partial/complete/rotate/truncate for four start-up states, start-up directories with 0..1000 rotated files, seeded random histories with long lines; after every operation (event + sentinel barrier) the delivered lines must equal the complete lines the harness wrote, in order. The real StartLogDirReader is run on real directories for the start-up order.",
   note="Each change is followed by its event, accepted before the next change; truncation is a Write event, rotation is Rename then Create.", ref="4 C20, 3.2"),
}

NOT_YET = {
}

def main():
    props=[json.loads(l)["id"] for l in open(os.path.join(V,"properties.jsonl"))]
    hooks_commits=subprocess.run(["git","-C","/repo","log","--format=%H","--grep=^verif:"],capture_output=True,text=True).stdout.split()
    checks=[]
    for pid in props:
        if pid not in CHECKS: continue
        c=CHECKS[pid]
        checks.append({
          "property_id": pid,
          "quick_cmd": f"./check {pid} quick",
          "thorough_cmd": f"./check {pid} thorough",
          "evidence_file": f"/verif/evidence/{pid}.json",
          "replay_cmd_template": f"./check {pid} quick --replay {{path}}",
          "engine": c["engine"],
          "level_claimed": {"category": c["cat"], "text": c["text"], "design_ref": "DESIGN.md section "+c["ref"]},
          "level_note": c["note"],
          "technique": c["tech"],
        })
    na=[{"property_id":p,"reason":NOT_YET.get(p,"monitor not built yet in this round; planned in DESIGN.md section 4")} for p in props if p not in CHECKS]
    m={
      "version":1,
      "setup_cmd":"cd /verif/harness && GOFLAGS=-mod=mod GOPROXY=off GOSUMDB=off GOTOOLCHAIN=local go build -tags verif -o /verif/build/mon ./cmd/mon",
      "hooks":{"guard":"verif","enable":"go build -tags verif (the harness module replaces github.com/metal-toolbox/audito-maldito => /repo, so every check compiles /repo's working tree)",
               "baseline_off_cmd":"cd /repo && GOFLAGS=-mod=mod GOPROXY=off GOSUMDB=off go test -json -vet=off -count=1 -timeout 25m ./...",
               "source_commits":hooks_commits,"add_only":True},
      "engines":[{"name":"mon","path":"/verif/harness/cmd/mon","serves_properties":sorted(CHECKS),"kind_free_text":"single Go monitor binary, one entry per property; runtime monitoring of the real code (recorder at the EventEncoder, harness-owned channels/FIFOs, race detector build for concurrent properties)"}],
      "checks":checks,
      "notes":"Technique family: runtime monitoring and sanitizers. ./check <ID> <tier> rebuilds the monitor against /repo's working tree on every call. Exit 0 held on what was observed; 1 + VIOLATION line; 2 check broken/inconclusive gate.",
      "not_applicable":na,
    }
    json.dump(m,open(os.path.join(V,"MANIFEST.json"),"w"),indent=1)
    print("checks:",len(checks),"not_applicable:",len(na))
main()
