#!/usr/bin/env python3
"""Generates /verif/MANIFEST.json from the table below (kept valid at all times)."""
import json, subprocess, os
V = os.path.dirname(os.path.dirname(os.path.abspath(__file__)))

CHECKS = {
 "C01": dict(engine="mon-correlator", cat="exploration", tech="runtime trace monitor over recorded EventEncoder calls (bounded-exhaustive + seeded histories; API, parser/reassembler, daemon)",
   text="Every history up to the stated length over a two-session alphabet (each prefix checked), plus seeded random multi-session histories, is executed against the real tracker, the real Auditd.Read and (thorough) the built daemon; every emitted UserAction's identity is compared with the login the harness delivered for the PID of the session's LOGIN record. Held on what was executed; exhaustive only for the stated bound.",
   note="Trusts the harness's own bookkeeping of what it delivered; unique identities/session ids/PIDs per history; auditevent and go-libaudit are the real libraries.", ref="4 C01"),
 "C02": dict(engine="mon-correlator", cat="exploration", tech="runtime trace monitor: exactly-once/in-order per session over recorded EventEncoder calls",
   text="Same executions as C01 with the login placed at every split point of the session's events and 1-4 sessions pending; per session the emitted list must equal the delivered list from the LOGIN record to the CRED_DISP, checked after every operation.",
   note="Order means delivery order; histories through Auditd.Read finish before the first reassembler maintenance tick (else retried/inconclusive).", ref="4 C02"),
 "C04": dict(engine="mon-correlator", cat="exploration", tech="online safety monitor evaluated after every operation of generated histories",
   text="Histories mixing correlated sessions with session-less, unset, unknown-session, non-LOGIN-opened and half-only sessions; after each operation everything emitted so far must belong to a session whose LOGIN record and login were both delivered by then, with that session's identity.",
   note="Necessary condition only (cleanup can only strengthen it); post-CRED_DISP events are checked for identity only.", ref="4 C04"),
 "C09": dict(engine="mon-correlator", cat="exploration", tech="runtime trace monitor over PID-reuse histories (bounded-exhaustive + seeded)",
   text="All placements of the first session's login (incl. after its CRED_DISP), of the second session's login, of 0-2 stray events and of one cleanup, plus random three-generation histories, at the tracker API and through Auditd.Read; the later generation must be emitted exactly once under its own identity and strays never under a foreign identity.",
   note="Later generations start only after the earlier session's CRED_DISP and login were both delivered.", ref="4 C09"),
 "C16": dict(engine="mon-correlator", cat="exploration", tech="runtime monitor: cleanup cut-offs from real clock readings, behavioural observation of pending halves; thorough adds a real-time run of Auditd.Read",
   text="All arrival orders of up to N halves of three PIDs with a cleanup pair at every gap and every cut-off between earlier arrivals; whether a pending half survived is observed by delivering the other half. Thorough adds one real-time run of Auditd.Read across its one-minute ticker.",
   note="Wall clock must not step backwards within a history; the 60-120 s band is unspecified.", ref="4 C16"),
}

NOT_YET = {
}

def main():
    props=[json.loads(l)["id"] for l in open(os.path.join(V,"properties.jsonl"))]
    hooks_commits=subprocess.run(["git","-C","/repo","log","--format=%H","--grep=^verif:"],capture_output=True,text=True).stdout.split()
    checks=[]
    for pid in props:
        if pid not in CHECKS: continue
        c=CHECKS[pid]
        checks.append({
          "property_id": pid,
          "quick_cmd": f"./check {pid} quick",
          "thorough_cmd": f"./check {pid} thorough",
          "evidence_file": f"/verif/evidence/{pid}.json",
          "replay_cmd_template": f"./check {pid} quick --replay {{path}}",
          "engine": c["engine"],
          "level_claimed": {"category": c["cat"], "text": c["text"], "design_ref": "DESIGN.md section "+c["ref"]},
          "level_note": c["note"],
          "technique": c["tech"],
        })
    na=[{"property_id":p,"reason":NOT_YET.get(p,"monitor not built yet in this round; planned in DESIGN.md section 4")} for p in props if p not in CHECKS]
    m={
      "version":1,
      "setup_cmd":"cd /verif/harness && GOFLAGS=-mod=mod GOPROXY=off GOSUMDB=off GOTOOLCHAIN=local go build -tags verif -o /verif/build/mon ./cmd/mon",
      "hooks":{"guard":"verif","enable":"go build -tags verif (the harness module replaces github.com/metal-toolbox/audito-maldito => /repo, so every check compiles /repo's working tree)",
               "baseline_off_cmd":"cd /repo && GOFLAGS=-mod=mod GOPROXY=off GOSUMDB=off go test -json -vet=off -count=1 -timeout 25m ./...",
               "source_commits":hooks_commits,"add_only":True},
      "engines":[{"name":"mon","path":"/verif/harness/cmd/mon","serves_properties":sorted(CHECKS),"kind_free_text":"single Go monitor binary, one entry per property; runtime monitoring of the real code (recorder at the EventEncoder, harness-owned channels/FIFOs, race detector build for concurrent properties)"}],
      "checks":checks,
      "notes":"Technique family: runtime monitoring and sanitizers. ./check <ID> <tier> rebuilds the monitor against /repo's working tree on every call. Exit 0 held on what was observed; 1 + VIOLATION line; 2 check broken/inconclusive gate.",
      "not_applicable":na,
    }
    json.dump(m,open(os.path.join(V,"MANIFEST.json"),"w"),indent=1)
    print("checks:",len(checks),"not_applicable:",len(na))
main()
