#!/bin/bash
# tools/peakrss.sh <cmd...>: run a command, report the peak total and per-process RSS of mon / mon-race / daemon processes (sampled at 1 Hz)
"$@" > /tmp/peakrss.out 2>&1 &
pid=$!
peak=0; peaksum=0
while kill -0 $pid 2>/dev/null; do
  read m s <<<$(ps -eo rss,comm | awk '$2 ~ /^(mon|mon-race|mon-scaled|audito-maldito)/ {if($1>m)m=$1; s+=$1} END{print m+0, s+0}')
  [ "$m" -gt "$peak" ] && peak=$m
  [ "$s" -gt "$peaksum" ] && peaksum=$s
  sleep 1
done
wait $pid; rc=$?
grep -v WARN /tmp/peakrss.out | tail -2
echo "rc=$rc peak_single_rss_MB=$((peak/1024)) peak_total_rss_MB=$((peaksum/1024))"
