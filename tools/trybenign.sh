#!/bin/bash
# tools/trybenign.sh <patch>... : apply a behaviour-preserving change to /repo, confirm build + suite, run every quick check,
# undo. Any VIOLATION / non-zero exit is a false alarm of the machinery (or the change is not benign after all).
export VERIF_NO_EVIDENCE=1
cd "$(dirname "$0")/.."
REPO="${VERIF_REPO:-/repo}"
export GOFLAGS=-mod=mod GOPROXY=off GOSUMDB=off GOTOOLCHAIN=local
for p in "$@"; do
  p=$(readlink -f "$p")
  [ -z "$(git -C "$REPO" status --porcelain)" ] || { echo "$REPO not clean"; exit 2; }
  git -C "$REPO" apply "$p" || { echo "$p: does not apply"; continue; }
  if ! (cd "$REPO" && go build ./... && go build -tags verif ./... && go test -vet=off -count=1 ./... >/tmp/mut/benign_suite.log 2>&1); then
     echo "$p: build or suite fails"; git -C "$REPO" checkout -- .; continue; fi
  for id in ${CHECKS:-C01 C02 C03 C04 C05 C06 C07 C08 C09 C10 C11 C12 C13 C14 C15 C16 C17 C18 C19 C20}; do
    out=$(./check $id quick 2>&1); rc=$?
    if [ $rc -ne 0 ]; then echo "$(basename $(dirname $p))/$(basename $p) $id rc=$rc"; echo "$out" | grep -v '^  \|WARNING' | tail -6 | cut -c1-400; fi
  done
  echo "$(basename $(dirname $p))/$(basename $p) done"
  git -C "$REPO" checkout -- .
done
git checkout -- evidence 2>/dev/null
