#!/bin/bash
# tools/runseeded.sh [name-prefix...] : apply every seeded change to /repo (or $VERIF_REPO) in turn, run the checks that are
# recorded as detecting it (quick tier), expect exit 1 with a VIOLATION line, undo. Writes seeded/RESULTS.txt.
export VERIF_NO_EVIDENCE=1
REPO="${VERIF_REPO:-/repo}"   # a copy of the repository may be used instead (vp run --with-repo: VERIF_REPO=$VP_RUN_REPO)
cd "$(dirname "$0")/.."
out="${RESULTS_OUT:-seeded/RESULTS.txt}"; : > $out.tmp
for d in seeded/M*; do
  n=$(basename $d)
  if [ $# -gt 0 ]; then ok=0; for p in "$@"; do case $n in $p*) ok=1;; esac; done; [ $ok = 1 ] || continue; fi
  checks=$(python3 -c "import json;print(' '.join(json.load(open('$d/meta.json'))['detected_by_checks']))")
  git -C "$REPO" checkout -q -- . ; git -C "$REPO" apply "$PWD/$d/patch.diff" || { echo "$n: patch does not apply" | tee -a $out.tmp; continue; }
  for c in $checks; do
    s=$(date +%s); o=$(./check $c quick 2>&1); rc=$?
    v=$(echo "$o" | grep -c '^VIOLATION')
    echo "$n $c rc=$rc violation_lines=$v t=$(( $(date +%s) - s ))s" | tee -a $out.tmp
  done
  git -C "$REPO" checkout -q -- .
done
git -C "$REPO" status --short
mv $out.tmp $out
