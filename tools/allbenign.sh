#!/bin/bash
# tools/allbenign.sh: every stored behaviour-preserving change against the checks of its area (quick tier)
cd "$(dirname "$0")/.."
CHECKS="C03 C05 C06 C07 C08 C10 C11 C12 C13 C17 C19" tools/trybenign.sh benign/B1/p*.diff
CHECKS="C01 C02 C03 C04 C05 C08 C09 C10 C13 C14 C15 C16" tools/trybenign.sh benign/B2/p*.diff
CHECKS="C01 C03 C05 C07 C08 C10 C12 C13 C15 C16 C18 C19 C20" tools/trybenign.sh benign/B3/p*.diff
CHECKS="C01 C02 C03 C04 C05 C07 C08 C09 C10 C12 C13 C14 C15 C16 C18 C20" tools/trybenign.sh benign/B4/p*.diff
CHECKS="C01 C02 C05 C06 C07 C08 C10 C11 C12 C13 C14 C15 C17 C18 C19" tools/trybenign.sh benign/B5/p*.diff
