#!/bin/bash
# tools/trymutant.sh <mutant-dir> <worktree> "<demo place path>" "<demo run cmd (run inside worktree)>" <check ids...>
# 1. confirms the mutant in the scratch worktree: compiles, suite passes, demo fails with / passes without;
# 2. applies it to /repo, runs the given checks (quick), undoes it.
export VERIF_NO_EVIDENCE=1
export GOFLAGS=-mod=mod GOPROXY=off GOSUMDB=off GOTOOLCHAIN=local
M="$1"; WT="$2"; PLACE="$3"; RUN="$4"; shift 4
DEMO=$(ls "$M"/demo_test.go "$M"/demo/main.go 2>/dev/null | head -1)
cd "$WT" || exit 9
git checkout -q -- . ; git clean -fdq
git apply "$M/patch.diff" || { echo "CONFIRM: patch does not apply"; exit 9; }
go build ./... && go build -tags verif ./... || { echo "CONFIRM: does not compile"; git checkout -q -- .; exit 9; }
if go test -vet=off -count=1 ./... >/tmp/mut/suite.log 2>&1; then echo "CONFIRM: suite passes with the change"; else echo "CONFIRM: SUITE FAILS with the change"; grep -v "^ok\|no test files" /tmp/mut/suite.log | head; fi
mkdir -p "$(dirname "$PLACE")"; cp "$DEMO" "$PLACE"
if bash -c "$RUN" >/tmp/mut/demo_with.log 2>&1; then echo "CONFIRM: demo PASSES with the change (unexpected)"; else echo "CONFIRM: demo fails with the change (expected)"; fi
git apply -R "$M/patch.diff"
if bash -c "$RUN" >/tmp/mut/demo_without.log 2>&1; then echo "CONFIRM: demo passes without the change (expected)"; else echo "CONFIRM: demo FAILS without the change (unexpected)"; tail -5 /tmp/mut/demo_without.log; fi
rm -f "$PLACE"; git checkout -q -- . ; git clean -fdq
cd /verif
git -C /repo apply "$M/patch.diff" || { echo "cannot apply to /repo"; exit 9; }
for id in "$@"; do
  out=$(./check $id quick 2>&1); rc=$?
  echo "CHECK $id rc=$rc $(echo "$out" | grep -c '^VIOLATION') violation lines; $(echo "$out" | grep 'violations with signature' | head -4 | tr '\n' ';' | cut -c1-400)"
done
git -C /repo checkout -- . ; git -C /repo status --short
