#!/usr/bin/env python3
"""mkprompts.py <suffix> <ids...>: (re)create scratch worktrees and prompt files /tmp/mut/out/<ID>.prompt<suffix>.txt"""
import json,glob,os,sys,subprocess,re,shutil
suffix=sys.argv[1]; ids=sys.argv[2:]
prev={}
for d in sorted(glob.glob('/verif/seeded/M*')):
    m=json.load(open(d+'/meta.json'))
    short=re.split(r' Initially|\. Not visible|\. Invisible|\. Caught thanks|\. Caught by|\. This is C15', m['needs_to_manifest'])[0]
    prev.setdefault(m['breaks_property'],[]).append(os.path.basename(d)+": "+short)
t=open('/tmp/mut/prompt_template.txt').read()
for id in ids:
    subprocess.call(["git","-C","/repo","worktree","remove","--force",f"/tmp/mut/{id}"],stderr=subprocess.DEVNULL)
    subprocess.check_call(["git","-C","/repo","worktree","add","--detach",f"/tmp/mut/{id}","HEAD","-q"])
    shutil.rmtree(f"/tmp/mut/out/{id}",ignore_errors=True); os.makedirs(f"/tmp/mut/out/{id}")
    p=open(f'/tmp/mut/out/{id}.prop.txt').read()
    x=t.replace('__WT__',f'/tmp/mut/{id}').replace('__OUT__',f'/tmp/mut/out/{id}').replace('__PROP__',p)
    avoid="\n".join(" - "+a for a in prev.get(id,[]))
    x+=f"\n\nIMPORTANT: changes of the following kinds have ALREADY been seeded for this property by others. Yours must be of a clearly DIFFERENT kind: a different code site or mechanism AND a different trigger condition. Look for other clauses of the property statement, other code paths (other branches, other workers, other message forms, error paths, boundary values, ordering between two sites, configuration such as log level or command-line flags, constants, timeouts, library calls, resource limits, unusual-but-legal record shapes) than these:\n{avoid}\n\nIn the first line of demo_test.go write exactly: `// Place at: <path relative to the worktree> ; run: go test -vet=off -count=1 -run '<TestName>' ./<package dir>/` (add -race after -count=1 if needed). Do not use git stash. Aim to finish within 15 minutes.\n"
    open(f'/tmp/mut/out/{id}.prompt{suffix}.txt','w').write(x)
print("ok",ids)
