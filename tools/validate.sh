#!/bin/bash
# validates MANIFEST.json and every evidence file against the schemas in /root/.vp
python3-vt - <<'PY'
import json,jsonschema,glob,sys
bad=0
try:
    jsonschema.validate(json.load(open('/verif/MANIFEST.json')),json.load(open('/root/.vp/MANIFEST.schema.json')))
except Exception as e:
    print("MANIFEST INVALID", str(e)[:300]); bad=1
sch=json.load(open('/root/.vp/EVIDENCE.schema.json'))
for f in sorted(glob.glob('/verif/evidence/*.json')):
    try:
        jsonschema.validate(json.load(open(f)),sch)
    except Exception as e:
        print("INVALID", f, str(e)[:300]); bad=1
print("validation", "FAILED" if bad else "ok")
sys.exit(bad)
PY
