#!/usr/bin/env python3
"""auto_try.py <ID> <check ids...>: parse the demo header of /tmp/mut/out/<ID>/demo_test.go and call trymutant.sh"""
import re,sys,subprocess,os
id=sys.argv[1]; checks=sys.argv[2:]
out=f"/tmp/mut/out/{id}"; wt=f"/tmp/mut/{id}"
head="".join(open(f"{out}/demo_test.go").readlines()[:4])
m=re.search(r'[Pp]lace (?:it )?at:?\s+(\S+_test\.go)', head)
place=m.group(1)
place=place.replace(wt+"/","").replace("<worktree>/","")
r=re.search(r"-run\s+'?([A-Za-z0-9_|]+)'?", head)
run=r.group(1) if r else "Demo"
pkg=re.search(r"(\./[A-Za-z0-9_/.]*|\s\.)\s*$", head.strip().splitlines()[-1] if "go test" in head.strip().splitlines()[-1] else [l for l in head.splitlines() if "go test" in l][0])
pkgs=pkg.group(1).strip() if pkg else "./"+os.path.dirname(place)+"/"
race="-race " if "-race" in head else ""
cmd=f"go test -vet=off -count=1 {race}-run '{run}' {pkgs}"
print("PLACE",place,"| CMD",cmd,flush=True)
subprocess.call(["/verif/tools/trymutant.sh",out,wt,place,cmd]+checks)
