#!/usr/bin/env python3
"""keepmutant.py <name> <srcdir> <property> <caught_by(comma)> <needs text> : store a confirmed seeded change under /verif/seeded/<name>/"""
import sys, os, shutil, json
name, src, prop, caught, needs = sys.argv[1:6]
dst = f"/verif/seeded/{name}"
os.makedirs(dst, exist_ok=True)
shutil.copy(f"{src}/patch.diff", f"{dst}/patch.diff")
for f in ("demo_test.go", "notes.md"):
    if os.path.exists(f"{src}/{f}"):
        shutil.copy(f"{src}/{f}", f"{dst}/{f}")
if os.path.isdir(f"{src}/demo"):
    shutil.copytree(f"{src}/demo", f"{dst}/demo", dirs_exist_ok=True)
first = open(f"{dst}/demo_test.go").readline().strip() if os.path.exists(f"{dst}/demo_test.go") else ""
meta = {
  "breaks_property": prop,
  "origin": "written by an independent sub-agent that was given only the property text and its own scratch worktree",
  "needs_to_manifest": needs,
  "demonstration": first,
  "confirmed": "tools/trymutant.sh: applies in a scratch worktree, go build ./... and -tags verif ok, existing suite passes with the change, demonstration fails with the change and passes without it",
  "detected_by_checks": caught.split(",") if caught else [],
  "ran": [f"git -C /repo apply seeded/{name}/patch.diff; ./check {c} quick  -> exit 1 + VIOLATION; git -C /repo checkout -- ." for c in caught.split(",") if c],
}
json.dump(meta, open(f"{dst}/meta.json","w"), indent=1)
print("kept", dst)
