#!/usr/bin/env python3
"""Regenerates the rounds-2+ table of seeded changes in DESIGN.md from seeded/*/meta.json"""
import json,glob,os,re
rows=[]
for d in sorted(glob.glob('/verif/seeded/M*'), key=lambda d: int(re.match(r'M(\d+)', os.path.basename(d)).group(1))):
    n=os.path.basename(d); num=int(re.match(r'M(\d+)',n).group(1))
    if num<=10: continue
    m=json.load(open(d+'/meta.json'))
    needs=m['needs_to_manifest']
    first="caught"
    if 'Initially' in needs:
        tail=needs.split('Initially',1)[1]
        first="**missed**"
        if 'inconclusive' in tail[:120]: first="**inconclusive (exit 2)**"
        elif re.match(r'\s*(only|caught only)', tail): first="caught only by a sibling check / by luck"
    elif 'Invisible to' in needs: first="**missed**"
    elif '(first missed' in needs: first="**missed**"
    elif '(first reported as' in needs: first="**check broken (exit 2)**"
    elif '(first caught by a single' in needs or '(first caught only' in needs: first="caught by luck"
    if not m['detected_by_checks']: first="not flagged on purpose"
    elif "C15's clause" in needs: first="**missed** (by C10 and C15)"
    short=re.split(r' \(first |\. With that name the response|\. Auditd\.Read returns on the first sink error \(C15: the failing|: outside C06|\. Auditd\.Read returns on the first sink error \(C15 checks that at every write position, M96|\. Observable only with| Auditd\.Read returns on| Initially|\. Not visible|\. Invisible|\. Caught thanks|\. This is C15', needs)[0][:260]
    rows.append(f"| {n} | {m['breaks_property']} | {short} | {first} | {', '.join(m['detected_by_checks'])} |")
p='/verif/DESIGN.md'
s=open(p).read()
a=s.index("Rounds 2 to 7 (") if "Rounds 2 to 7 (" in s else s.index("Rounds 2 to 7 (")
b=s.index("What the misses had in common")
hdr='''Rounds 2 to 7 (from round 3 on the agents were additionally told which kinds of change had already been
seeded for their property and asked for a different site, mechanism and trigger):

| name | breaks | needs | first | now caught by |
|---|---|---|---|---|
'''
s=s[:a]+hdr+"\n".join(rows)+"\n\n"+s[b:]
open(p,'w').write(s)
print(len(rows),"rows")
