#!/bin/bash
# tools/sweep.sh <tier> <seed>... : run every check at the given seeds, report exit code and wall time.
tier="$1"; shift
cd "$(dirname "$0")/.."
for seed in "$@"; do
  for id in C01 C02 C03 C04 C05 C06 C07 C08 C09 C10 C11 C12 C13 C14 C15 C16 C17 C18 C19 C20; do
    s=$(date +%s.%N)
    out=$(VERIF_SEED=$seed ./check $id $tier 2>&1); rc=$?
    e=$(date +%s.%N)
    printf "%s seed=%s rc=%s t=%.1fs %s\n" $id $seed $rc $(echo "$e - $s" | bc) "$(echo "$out" | grep -c '^VIOLATION\|^INCONCLUSIVE\|^CHECK-BROKEN') alarms"
    if [ $rc -ne 0 ] || echo "$out" | grep -q '^INCONCLUSIVE'; then echo "$out" | grep -v '^  ' | tail -5 | cut -c1-300; fi
  done
done
